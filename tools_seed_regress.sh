#!/bin/bash
# usage: tools_seed_regress.sh [seed-dir-name ...]
# Regression suite for the checks themselves (check = meta.json regress_check, default the seed's property): every seeded change under seeded/ is applied to a scratch
# worktree of /repo (never /repo itself) and the quick check of its property must exit 1 with a VIOLATION
# line.  Prints one line per seed; exit 1 if a seed is not reported.  Scratch output is removed.
cd /verif
names=("$@"); [ ${#names[@]} -eq 0 ] && names=($(ls seeded))
miss=0
for n in "${names[@]}"; do
  [ -f "seeded/$n/patch.diff" ] || continue
  pid=$(/venv/bin/python -c "import json;m=json.load(open('seeded/$n/meta.json'));print(m.get('regress_check') or m['property'])")
  out=$(./tools_mutant.sh "seeded/$n/patch.diff" quick "$pid" 2>&1)
  line=$(echo "$out" | grep "^$pid exit=")
  logs=$(echo "$out" | sed -n 's/^logs: //p')
  case "$line" in
    "$pid exit=1 "*) echo "CAUGHT $n: $line" | cut -c1-200 ;;
    *) echo "MISSED $n: $line"; miss=1 ;;
  esac
  [ -n "$logs" ] && rm -rf "$logs"
done
exit $miss
