#!/bin/bash
# usage: tools_mutant.sh <patch.diff> <tier> <check id>...
# Applies the patch to a scratch worktree of /repo (never to /repo itself), runs the checks against
# it with evidence/replays redirected to a scratch dir, prints exit codes, removes the worktree.
PATCH="$(readlink -f "$1")"; TIER="$2"; shift 2
TAG="$(basename "$(dirname "$PATCH")")_$$"
WT="/tmp/mut_$TAG"
git -C /repo worktree add -q --detach "$WT" HEAD || exit 9
if ! git -C "$WT" apply "$PATCH"; then echo "patch does not apply"; git -C /repo worktree remove --force "$WT"; exit 9; fi
mkdir -p "/tmp/mutout_$TAG"
for id in "$@"; do
  TENSORA_VERIF_REPO="$WT" VERIF_EVIDENCE_DIR="/tmp/mutout_$TAG/evidence" VERIF_REPLAY_DIR="/tmp/mutout_$TAG/replays" \
    /verif/vt check "$id" --tier "$TIER" > "/tmp/mutout_$TAG/$id.log" 2>&1
  code=$?
  echo "$id exit=$code $(grep -c '^VIOLATION' /tmp/mutout_$TAG/$id.log) violations, $(grep -c '^HARNESS' /tmp/mutout_$TAG/$id.log) harness errors; $(grep -m1 '^VIOLATION' /tmp/mutout_$TAG/$id.log)"
done
git -C /repo worktree remove --force "$WT"
git -C /repo worktree prune
echo "logs: /tmp/mutout_$TAG"
