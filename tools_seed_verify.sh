#!/bin/bash
# usage: tools_seed_verify.sh <dir with patch.diff and demo.py> [--notests]
# Confirms a seeded change independently in a fresh scratch worktree of /repo HEAD:
#   demo passes without the patch, fails with it; the repository's tests and tests_cffi pass with it.
D="$(readlink -f "$1")"; NOTESTS="$2"
WT="/tmp/seedchk_$$"
git -C /repo worktree add -q --detach "$WT" HEAD || exit 9
cd "$WT"
PYTHONPATH="$WT/src" timeout 600 /venv/bin/python "$D/demo.py" > "$D/demo_without.log" 2>&1; a=$?
if ! git apply "$D/patch.diff"; then echo "PATCH DOES NOT APPLY"; git -C /repo worktree remove --force "$WT"; exit 9; fi
PYTHONPATH="$WT/src" timeout 600 /venv/bin/python "$D/demo.py" > "$D/demo_with.log" 2>&1; b=$?
echo "demo without patch: exit=$a ; with patch: exit=$b"
if [ "$NOTESTS" != "--notests" ]; then
  PYTHONPATH="$WT/src" timeout 1500 /venv/bin/python -m pytest -q -p no:cacheprovider --timeout=900 tests tests_cffi > "$D/tests_with.log" 2>&1; t=$?
  echo "tests with patch: exit=$t ; $(tail -1 "$D/tests_with.log")"
fi
cd /; git -C /repo worktree remove --force "$WT"; git -C /repo worktree prune
