#!/bin/bash
# Run the repository's baseline suite (guard off) on /repo or on a worktree and compare with BASELINE.json's stable_pass.
# usage: tools_baseline.sh [repo_dir] [junit_out]
REPO="${1:-/repo}"
OUT="${2:-/tmp/baseline_$$.xml}"
unset TENSORA_VERIF_INITIAL_CAPACITY
cd "$REPO" && PYTHONPATH="$REPO/src" /venv/bin/python -m pytest -ra -q -p no:cacheprovider --timeout=900 --continue-on-collection-errors --junitxml="$OUT" >/tmp/baseline_$$.log 2>&1
python3 - "$OUT" <<'PY'
import json, sys, xml.etree.ElementTree as ET
base=set(json.load(open('/root/.vp/BASELINE.json'))['stable_pass'])
root=ET.parse(sys.argv[1]).getroot()
passed=set(); failed=set()
for tc in root.iter('testcase'):
    name=f"{tc.get('classname')}::{tc.get('name')}"
    bad=any(ch.tag in('failure','error') for ch in tc)
    skipped=any(ch.tag=='skipped' for ch in tc)
    if bad: failed.add(name)
    elif not skipped: passed.add(name)
missing=base-passed
print(f"passed={len(passed)} failed={len(failed)} baseline={len(base)} baseline_not_passed={len(missing)}")
for m in sorted(missing)[:20]: print("  NOT PASSED:", m)
for m in sorted(failed)[:10]: print("  FAILED:", m)
sys.exit(1 if missing else 0)
PY
