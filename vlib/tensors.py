"""Symbolic / concrete stored tensors on a Machine, and the denotation of a stored tensor."""

from __future__ import annotations

from dataclasses import dataclass
from fractions import Fraction

import z3
from tensora.format import Format, Mode

from . import sym
from .kse import Block, HarnessError, Machine, Ptr, TensorStruct
from .sym import PW, band, bnot, bor, icmp, imul, simp_bool, simp_int, zi


@dataclass
class SymLevel:
    pos: object  # z3 Array
    crd: object
    n: object  # z3 Int: entries stored at this level
    nmax: int  # bound on n
    pmax: int  # bound on parent count


@dataclass
class SymTensorInfo:
    name: str
    fmt: Format
    dims: list  # per *dimension* (not level): int | z3 Int
    levels: list  # per level: None | SymLevel
    counts: list  # per level: number of positions (int | z3)
    count_bounds: list  # per level: concrete upper bound
    hot: list  # [(z3 Int, [(guard, Fraction)])]
    vals_block: int = 0


def bound_of(x, m: Machine, cap=None) -> int:
    """A concrete upper bound for an int term (exact when it simplifies)."""
    x = simp_int(x)
    if isinstance(x, int):
        return x
    if cap is not None:
        return cap
    raise HarnessError("cannot bound term")


def add_dimensions_block(m: Machine, name, dims, owner="input"):
    data = z3.K(sym.IntSort, z3.IntVal(0))
    cells = {}
    symbolic = False
    for d, v in enumerate(dims):
        if isinstance(v, int):
            cells[d] = v
        else:
            symbolic = True
            cells[d] = v
    b = m.heap.new(f"{name}.dimensions", "int", len(dims), init_all=True, owner=owner)
    b.cells = cells
    del data, symbolic
    return b


def make_symbolic_tensor(m: Machine, name: str, fmt: Format, dims: list, max_nnz: int,
                         occurrences: int = 1, uf_vals: bool = False) -> SymTensorInfo:
    """An arbitrary well-formed stored tensor (representation invariant of DESIGN.md §2)."""
    order = fmt.order
    dblock = add_dimensions_block(m, name, dims)
    n_prev = 1
    p_bound = 1
    levels = []
    struct_levels = []
    counts = []
    bounds = []
    for l, mode in enumerate(fmt.modes):
        dim = dims[fmt.ordering[l]]
        if mode == Mode.dense:
            n_prev = simp_int(imul(n_prev, dim))
            if isinstance(dim, int):
                p_bound = p_bound * dim
            else:
                raise HarnessError("dense level with symbolic dimension is outside the encoding")
            levels.append(None)
            struct_levels.append(None)
        else:
            pos = z3.Array(f"{name}_{l}_pos", sym.IntSort, sym.IntSort)
            crd = z3.Array(f"{name}_{l}_crd", sym.IntSort, sym.IntSort)
            n = z3.Int(f"{name}_{l}_n")
            P = p_bound
            m.assume(z3.Select(pos, 0) == 0)
            m.assume(n >= 0)
            m.assume(n <= max_nnz)
            for k in range(P):
                m.assume(sym.bimplies(icmp("<", k, n_prev), z3.Select(pos, k) <= z3.Select(pos, k + 1)))
            m.assume(z3.Select(pos, zi(n_prev)) == n)
            for q in range(max_nnz):
                m.assume(z3.Implies(q < n, z3.And(z3.Select(crd, q) >= 0, z3.Select(crd, q) < zi(dim))))
            for q in range(max_nnz - 1):
                # q and q+1 lie in the same segment unless some pos[k] == q+1 for 1 <= k <= n_prev
                boundary = bor(*[band(icmp("<=", k, n_prev), z3.Select(pos, k) == q + 1)
                                 for k in range(1, P + 1)])
                m.assume(sym.bimplies(band(q + 1 < n, bnot(boundary)),
                                      z3.Select(crd, q) < z3.Select(crd, q + 1)))
            pb = m.heap.new(f"{name}_{l}_pos", "int", simp_int(sym.iadd(n_prev, 1)),
                            base=pos, init_all=True, owner="input")
            cb = m.heap.new(f"{name}_{l}_crd", "int", n, base=crd, init_all=True, owner="input")
            levels.append(SymLevel(pos, crd, n, max_nnz, P))
            struct_levels.append([Ptr(pb.bid, 0), Ptr(cb.bid, 0)])
            n_prev = n
            p_bound = max_nnz
        counts.append(n_prev)
        bounds.append(p_bound)
    vb = m.heap.new(f"{name}_vals", "float", n_prev, init_all=True, owner="input")
    hot = []
    if uf_vals:
        vb.base = z3.Array(f"{name}_valsarr", sym.IntSort, sym.RealSort)
    else:
        for r in range(occurrences):
            e = z3.Int(f"{name}_hot{r}")
            m.assume(e >= -1)
            m.assume(e < zi(n_prev)) if not isinstance(n_prev, int) else m.assume(e < n_prev)
            if occurrences == 1:
                weights = [(True, Fraction(1))]
            else:
                w = z3.Int(f"{name}_w{r}")
                m.assume(w >= 1)
                m.assume(w <= occurrences)
                weights = [(w == v, Fraction(v)) for v in range(1, occurrences + 1)]
            hot.append((e, weights))
        vb.hot = hot
    m.tensors[name] = TensorStruct(name, order, Ptr(dblock.bid, 0), struct_levels, Ptr(vb.bid, 0),
                                   is_output=False, modes=fmt.modes, ordering=fmt.ordering)
    return SymTensorInfo(name, fmt, list(dims), levels, counts, bounds, hot, vb.bid)


def make_output_struct(m: Machine, name: str, fmt: Format, dims: list):
    """The struct exactly as ``allocate_taco_structure`` leaves it: NULL vals, NULL pos/crd slots."""
    dblock = add_dimensions_block(m, name, dims)
    levels = [None if mode == Mode.dense else [Ptr(0, 0), Ptr(0, 0)] for mode in fmt.modes]
    m.tensors[name] = TensorStruct(name, fmt.order, Ptr(dblock.bid, 0), levels, Ptr(0, 0),
                                   is_output=True, modes=fmt.modes, ordering=fmt.ordering)


def make_concrete_tensor(m: Machine, name: str, fmt: Format, dims, indices, vals):
    """Concrete input tensor from raw taco arrays (``indices[l] = [] | [pos, crd]``)."""
    dblock = add_dimensions_block(m, name, list(dims))
    levels = []
    for l, mode in enumerate(fmt.modes):
        if mode == Mode.dense:
            levels.append(None)
        else:
            pos, crd = indices[l]
            pb = m.heap.new(f"{name}_{l}_pos", "int", len(pos), init_all=True, owner="input")
            pb.cells = dict(enumerate(int(x) for x in pos))
            cb = m.heap.new(f"{name}_{l}_crd", "int", len(crd), init_all=True, owner="input")
            cb.cells = dict(enumerate(int(x) for x in crd))
            levels.append([Ptr(pb.bid, 0), Ptr(cb.bid, 0)])
    vb = m.heap.new(f"{name}_vals", "float", len(vals), init_all=True, owner="input")
    vb.cells = {k: m.falg.const(Fraction(v)) for k, v in enumerate(vals)}
    m.tensors[name] = TensorStruct(name, fmt.order, Ptr(dblock.bid, 0), levels, Ptr(vb.bid, 0),
                                   is_output=False, modes=fmt.modes, ordering=fmt.ordering)


# ------------------------------------------------------------------ denotation


@dataclass
class Entry:
    guard: object  # bool | z3 Bool: this stored position exists
    coords: tuple  # per *dimension*: int | z3 Int
    pos: int  # position in vals
    value: object  # float-algebra value
    level_pos: tuple  # position at every level (for C02/C03)


class TensorView:
    """Reads a tensor (input or final output) out of the machine's heap."""

    def __init__(self, m: Machine, name: str, count_bounds=None):
        self.m = m
        self.ts = m.tensors[name]
        self.name = name
        self.count_bounds = count_bounds

    def dim(self, d):
        b = self.m.heap[self.ts.dimensions.block]
        return self.m.read_cell(b, d)

    def level_arrays(self, l):
        lv = self.ts.levels[l]
        return self.m.heap[lv[0].block], self.m.heap[lv[1].block]

    def entries(self, upto_level=None) -> list[Entry]:
        """All candidate stored positions (guarded) down to ``upto_level`` (default: leaves)."""
        m = self.m
        ts = self.ts
        order = ts.order
        stop = order if upto_level is None else upto_level + 1
        out = []

        def rec(l, p, guard, coords, lpos):
            if guard is False:
                return
            if l == stop:
                if stop == order:
                    vb = m.heap[ts.vals.block]
                    val = m.read_cell(vb, p)
                else:
                    val = None
                out.append(Entry(guard, tuple(coords.get(d) for d in range(order)), p, val, tuple(lpos)))
                return
            d = ts.ordering[l]
            if ts.modes[l] == Mode.dense:
                dim = simp_int(self.dim(d))
                if not isinstance(dim, int):
                    raise HarnessError("dense level with symbolic dimension")
                for c in range(dim):
                    coords[d] = c
                    rec(l + 1, p * dim + c, guard, coords, lpos + [p * dim + c])
                coords.pop(d, None)
            else:
                posb, crdb = self.level_arrays(l)
                lo = m.read_cell(posb, p)
                hi = m.read_cell(posb, p + 1)
                nmax = self.bound_for(l, crdb)
                for q in range(nmax):
                    g = simp_bool(band(guard, icmp("<=", lo, q), icmp("<", q, hi)))
                    if g is False:
                        continue
                    coords[d] = m.read_cell(crdb, q)
                    rec(l + 1, q, g, coords, lpos + [q])
                coords.pop(d, None)

        rec(0, 0, True, {}, [])
        return out

    def bound_for(self, l, crdb: Block) -> int:
        if self.count_bounds is not None and self.count_bounds[l] is not None:
            return self.count_bounds[l]
        n = simp_int(crdb.length)
        if isinstance(n, int):
            return n
        raise HarnessError(f"non-concrete length of {crdb.name}")
