"""Oracles written from the property statements (independent of tensora's desugar/lowering)."""

from __future__ import annotations

from fractions import Fraction

import z3
from tensora.expression import ast as sugar

from . import sym
from .sym import PW, band, bor, icmp, simp_bool


def monomials(e) -> list[tuple[Fraction, list]]:
    """Distribute a sugar expression into a sum of  coef * T1(..) * T2(..) ...  (ordinary algebra)."""
    if isinstance(e, sugar.Integer):
        return [(Fraction(e.value), [])]
    if isinstance(e, sugar.Float):
        return [(Fraction(e.value), [])]
    if isinstance(e, sugar.Tensor):
        return [(Fraction(1), [e])]
    if isinstance(e, sugar.Add):
        return monomials(e.left) + monomials(e.right)
    if isinstance(e, sugar.Subtract):
        return monomials(e.left) + [(-c, ts) for c, ts in monomials(e.right)]
    if isinstance(e, sugar.Multiply):
        out = []
        for c1, t1 in monomials(e.left):
            for c2, t2 in monomials(e.right):
                out.append((c1 * c2, t1 + t2))
        return out
    raise TypeError(e)


def occurrences(assignment) -> dict[str, int]:
    """Maximal number of cells of one tensor in a monomial (the m_T of the grid lemma)."""
    out: dict[str, int] = {}
    for _, ts in monomials(assignment.expression):
        cnt: dict[str, int] = {}
        for t in ts:
            cnt[t.name] = cnt.get(t.name, 0) + 1
        for k, v in cnt.items():
            out[k] = max(out.get(k, 0), v)
    for name in assignment.expression.variables():
        out.setdefault(name, 1)
    return out


def _tuples(tensors, entries_of, binding, guard, k, acc_vals, out):
    """Enumerate consistent tuples of stored entries, one per tensor occurrence."""
    if guard is False:
        return
    if k == len(tensors):
        out.append((guard, list(acc_vals)))
        return
    t = tensors[k]
    for e in entries_of(t.name):
        g = band(guard, e.guard)
        if g is False:
            continue
        new_bind = None
        ok = True
        for d, idx in enumerate(t.indexes):
            c = e.coords[d]
            cur = binding.get(idx) if new_bind is None else new_bind.get(idx, binding.get(idx))
            if cur is None:
                if new_bind is None:
                    new_bind = {}
                new_bind[idx] = c
            else:
                eq = icmp("==", cur, c)
                if eq is False:
                    ok = False
                    break
                g = band(g, eq)
        if not ok:
            continue
        b2 = binding if new_bind is None else {**binding, **new_bind}
        acc_vals.append(e.value)
        _tuples(tensors, entries_of, b2, g, k + 1, acc_vals, out)
        acc_vals.pop()


def spec_value(assignment, entries_of, target_coord: dict, falg=None):
    """The mathematical value of ``assignment`` at the target coordinate, as a PW.

    ``entries_of(name)`` lists the stored entries (``tensors.Entry``) of an input tensor.
    Every additive term is summed over its own non-target indexes: realised as the sum over all
    consistent tuples of stored entries (unstored cells contribute zero)."""
    total = PW()
    for coef, ts in monomials(assignment.expression):
        if coef == 0:
            continue
        binding = dict(target_coord)
        if not ts:
            total = total.add(PW.const(coef))
            continue
        combos = []
        _tuples(ts, entries_of, binding, True, 0, [], combos)
        for g, vals in combos:
            g = simp_bool(g)
            if g is False:
                continue
            v = PW.const(coef)
            for x in vals:
                v = v.mul(x)
            total = total.add(v.guard(g))
    return total


def support(assignment, entries_of, partial_coord: dict):
    """Structural support of the expression under a (partial) target coordinate: tensors are the
    sets of coordinates they store, products intersect, sums unite, summation and the unbound
    target indexes are existential, literals are everywhere-present."""
    alts = []
    for coef, ts in monomials(assignment.expression):
        if not ts:
            return True
        combos = []
        _tuples(ts, entries_of, dict(partial_coord), True, 0, [], combos)
        for g, _ in combos:
            g = simp_bool(g)
            if g is True:
                return True
            if g is not False:
                alts.append(g)
    return bor(*alts)
