"""Judging concrete outputs (from the concrete IR machine, the real JIT kernel or the ASan build)
against the properties' concrete oracles.  Used to confirm solver counterexamples before they are
reported and to validate the symbolic executor against the implementation."""

from __future__ import annotations

from fractions import Fraction

from tensora.format import Mode

from . import replay
from .explore import index_classes


def index_dims_from(decoded, comp):
    cls = index_classes(comp.assignment)
    dv = decoded["dimvals"]
    return {i: dv[c] for i, c in cls.items()}


def index_dims_for(assignment, decoded, comp):
    """index name -> size, read off the concrete tensors (works for a caller-supplied spec)."""
    out = {}
    for i, d in zip(assignment.target.indexes, decoded["output_dimensions"]):
        out[i] = d
    for name, occs in assignment.expression.variables().items():
        dims = decoded["inputs"][name]["dimensions"]
        for occ in occs:
            for i, d in zip(occ.indexes, dims):
                out.setdefault(i, d)
    return out


def judge_output(comp, decoded, output: dict, families, spec_assignment=None) -> list[str]:
    """Problems of a concrete output w.r.t. the requested assertion families."""
    probs = []
    asg = spec_assignment or comp.assignment
    fmt = comp.formats[comp.target]
    dims = list(decoded["output_dimensions"])
    indices = output["indices"]
    vals = output["vals"]
    unreadable = [n for n in output.get("notes", []) if "unreadable" in n]
    if unreadable:
        return ["structure: " + n for n in unreadable]
    if any(v is None for v in vals):
        probs.append("uninitialised vals cell read back")
        return probs
    if len(indices) != fmt.order:
        return ["structure: output has the wrong number of levels"]
    inputs = replay.parse_inputs(decoded)
    idims = index_dims_for(asg, decoded, comp)
    wf = replay.wf_problems(fmt, dims, indices, output.get("vals_length", len(vals)))
    if "canon" in families:
        probs += ["canon: " + p for p in wf]
        probs += ["canon: " + n for n in output.get("notes", [])]
    if wf and any("len(" in p for p in wf):
        return probs or ["structure unreadable: " + "; ".join(wf)]
    if "value" in families:
        got = {}
        for coord, p in replay.raw_entries(fmt, dims, indices, vals):
            got[coord] = got.get(coord, Fraction(0)) + Fraction(vals[p])
        want = replay.spec_concrete(asg, inputs, idims)
        for c in sorted(set(want) | set(got)):
            g = got.get(c, Fraction(0))
            w = want.get(c, Fraction(0))
            if g != w:
                probs.append(f"value: at {c} got {float(g)} expected {float(w)}")
                break
    if "support" in families:
        tix = asg.target.indexes
        for l, mode in enumerate(fmt.modes):
            if mode != Mode.compressed:
                continue
            for prefix in _prefixes(fmt, dims, indices, l):
                partial = {tix[fmt.ordering[k]]: prefix[k] for k in range(l + 1)}
                if not replay.support_concrete(asg, inputs, idims, partial):
                    probs.append(f"support: level {l} stores {partial} without support")
                    break
    return probs


def _prefixes(fmt, dims, indices, upto):
    out = []

    def rec(l, p, pre):
        if l == upto + 1:
            out.append(tuple(pre))
            return
        d = fmt.ordering[l]
        if fmt.modes[l] == Mode.dense:
            for c in range(dims[d]):
                rec(l + 1, p * dims[d] + c, pre + [c])
        else:
            pos, crd = indices[l]
            for q in range(pos[p], pos[p + 1]):
                rec(l + 1, q, pre + [crd[q]])

    rec(0, 0, [])
    return out


def same_raw(a: dict, b: dict) -> bool:
    if a["indices"] != b["indices"]:
        return False
    va, vb = a["vals"], b["vals"]
    if len(va) != len(vb):
        return False
    return all(x is not None and y is not None and float(x) == float(y) for x, y in zip(va, vb))
