"""Pure (path-free) symbolic meanings of *printed* expressions: the C text (via pycparser) and the
LLVM function (via the textual parser), in the same (type, value, safe, accesses) form as
``trees.meaning`` so that z3 can compare them with the IR meaning."""

from __future__ import annotations

import re
import struct
from fractions import Fraction

import z3
from pycparser import c_ast

from . import sym, trees
from .kse import HarnessError
from .llfront import ICMP, icmp_pred, split_top, type_value
from .sym import band, bimplies, bnot, bor, icmp, iadd, imul, isub, ite, zi

VAR_CTYPE = {"x": "int", "y": "int", "u": "double", "v": "double", "p": "bool", "q": "bool",
             "ia": "int*", "fa": "double*"}


# ------------------------------------------------------------------------------ C


class Malformed(Exception):
    """The emitted text is not well formed: an LLVM function the verifier rejects, a C constant outside double."""


def c_meaning(e, env: trees.Env):
    t = type(e)
    if t is c_ast.ID:
        ct = VAR_CTYPE[e.name]
        if ct.endswith("*"):
            return (ct, e.name, True, ())
        return (ct, env.vars[e.name], True, ())
    if t is c_ast.Constant:
        if e.type in ("int", "long int", "long long int"):
            v = int(e.value.rstrip("uUlL"), 0)
            # a constant that does not fit int has type long in C: it keeps its value
            return ("int", v, True, ())
        if e.type in ("double", "float"):
            fv = float(e.value.rstrip("fFlL")) if not e.value.lower().startswith("0x") else float.fromhex(e.value.rstrip("fFlL"))
            if fv != fv or fv in (float("inf"), float("-inf")):
                raise Malformed(f"C floating constant {e.value} is outside the range of double")
            return ("double", Fraction(fv), True, ())
        raise HarnessError(f"C constant {e.type}")
    if t is c_ast.BinaryOp:
        op = e.op
        ta, a, sa, aa = c_meaning(e.left, env)
        tb, b, sb, ab = c_meaning(e.right, env)
        if op == "&&":
            a, b = _truth(ta, a), _truth(tb, b)
            return ("bool", band(a, b), band(sa, bimplies(a, sb)), aa + tuple((band(a, g), n, i) for g, n, i in ab))
        if op == "||":
            a, b = _truth(ta, a), _truth(tb, b)
            return ("bool", bor(a, b), band(sa, bor(a, sb)), aa + tuple((band(bnot(a), g), n, i) for g, n, i in ab))
        safe = band(sa, sb)
        acc = aa + ab
        if op in ("+", "-", "*"):
            if "double" in (ta, tb):
                a = a if ta == "double" else env.itof(_int(ta, a))
                b = b if tb == "double" else env.itof(_int(tb, b))
                v = env.fadd(a, b) if op == "+" else env.fsub(a, b) if op == "-" else env.fmul(a, b)
                return ("double", v, safe, acc)
            a, b = _int(ta, a), _int(tb, b)
            v = iadd(a, b) if op == "+" else isub(a, b) if op == "-" else imul(a, b)
            v, safe = env.int_result(v, safe)
            return ("int", v, safe, acc)
        if op in ("==", "!=", "<", "<=", ">", ">="):
            if "double" in (ta, tb):
                raise HarnessError("floating comparison in C text")
            if ta == "bool" and tb == "bool" and op in ("==", "!="):
                r = sym.beq(a, b)
                return ("bool", r if op == "==" else bnot(r), safe, acc)
            return ("bool", icmp(op, _int(ta, a), _int(tb, b)), safe, acc)
        raise HarnessError(f"C operator {op}")
    if t is c_ast.UnaryOp and e.op == "-":
        ta, a, sa, aa = c_meaning(e.expr, env)
        if ta == "double":
            return ("double", env.fsub(Fraction(0), a) if not isinstance(a, Fraction) else -a, sa, aa)
        a = _int(ta, a)
        if isinstance(a, int):
            return ("int", -a, sa, aa)
        v, safe = env.int_result(isub(0, a), sa)
        return ("int", v, safe, aa)
    if t is c_ast.UnaryOp and e.op == "+":
        return c_meaning(e.expr, env)
    if t is c_ast.TernaryOp:
        tc, c, sc, ac = c_meaning(e.cond, env)
        ta, a, sa, aa = c_meaning(e.iftrue, env)
        tb, b, sb, ab = c_meaning(e.iffalse, env)
        c = _truth(tc, c)
        safe = band(sc, bimplies(c, sa), bimplies(bnot(c), sb))
        acc = ac + tuple((band(c, g), n, i) for g, n, i in aa) + tuple((band(bnot(c), g), n, i) for g, n, i in ab)
        if "double" in (ta, tb):
            raise HarnessError("double ternary")
        return ("int", ite(c, _int(ta, a), _int(tb, b)), safe, acc)
    if t is c_ast.Cast:
        ta, a, sa, aa = c_meaning(e.expr, env)
        names = " ".join(e.to_type.type.type.names)
        if names in ("int32_t", "int"):
            if ta == "double":
                raise HarnessError("double to int cast")
            return ("int", _int(ta, a), sa, aa)
        raise HarnessError(f"cast to {names}")
    if t is c_ast.ArrayRef:
        ta, name, sa, aa = c_meaning(e.name, env)
        tb, i, sb, ab = c_meaning(e.subscript, env)
        arr, length, elem = env.arrays[name]
        i = _int(tb, i)
        inb = band(icmp(">=", i, 0), icmp("<", i, length))
        return ("double" if elem == "float" else "int", z3.Select(arr, zi(i)), band(sa, sb, inb), aa + ab + ((True, name, i),))
    raise HarnessError(f"C expression {t.__name__}")


def _int(ct, v):
    if ct == "bool":
        return ite(v, 1, 0)
    return v


def _truth(ct, v):
    if ct == "bool":
        return v
    if ct == "int":
        return icmp("!=", v, 0)
    raise HarnessError("truth value of double")


def norm(ct, v):
    """C result -> (trees type, value)."""
    return ({"int": "int", "double": "float", "bool": "bool"}[ct], v)


# ------------------------------------------------------------------------------ LLVM


def ll_meaning(fn, env: trees.Env, param_names):
    """Meaning of a loop-free LLVM function (short-circuit diamonds) by guarded evaluation of
    its CFG in topological order.  Returns (type, value, safe, accesses)."""
    regs = {}
    for (ty, reg), name in zip(fn.params, param_names):
        regs[reg[1:].strip('"')] = ("param", name)
    slots = {}
    # edges
    succ = {}
    for lab, inss in fn.blocks.items():
        term = inss[-1]
        if term.startswith("br label"):
            succ[lab] = [term.split("%")[1].strip().strip('"')]
        elif term.startswith("br i1"):
            mm = re.match(r'br i1\s+(\S+)\s*,\s*label\s+%"?([^",\s]+)"?\s*,\s*label\s+%"?([^",\s]+)"?', term)
            succ[lab] = [mm.group(2), mm.group(3)]
        else:
            succ[lab] = []
    preds = {lab: [] for lab in fn.blocks}
    for a, bs in succ.items():
        for b in bs:
            preds[b].append(a)
    order = []
    done = set()

    def visit(b):
        if b in done:
            return
        if any(p not in done for p in preds[b]):
            return
        done.add(b)
        order.append(b)
        for s in succ[b]:
            visit(s)

    visit(fn.order[0])
    pending = True
    while pending:
        pending = False
        for b in fn.order:
            if b not in done and all(p in done for p in preds[b]) and preds[b]:
                visit(b)
                pending = True
    guard = {fn.order[0]: True}
    edge = {}
    safe = [True]
    accesses = []
    result = [None]

    def val(ty, tok):
        if tok.startswith("%"):
            return regs[tok[1:].strip('"')]
        if ty == "double":
            if tok.startswith("0x"):
                f = struct.unpack(">d", bytes.fromhex(tok[2:].rjust(16, "0")))[0]
            else:
                f = float(tok)
            return Fraction(f)
        if ty == "i1":
            return {"true": True, "false": False, "1": True, "0": False}[tok]
        v = int(tok)
        if ty == "i32":
            v = ((v + 2**31) % 2**32) - 2**31  # an i32 constant keeps its low 32 bits
        return v

    for lab in order:
        if lab != fn.order[0]:
            guard[lab] = bor(*[edge[(p, lab)] for p in preds[lab] if (p, lab) in edge])
        g = guard[lab]
        for ins in fn.blocks[lab]:
            dest = None
            if ins.startswith("%"):
                lhs, rhs = ins.split("=", 1)
                dest = lhs.strip()[1:].strip('"')
                ins = rhs.strip()
            op, _, rest = ins.partition(" ")
            rest = rest.strip()
            if op == "alloca":
                regs[dest] = ("slot", dest)
                continue
            if op == "store":
                a, b = split_top(rest)
                vt, vv = type_value(a)
                pt, pv = type_value(b)
                p = val(pt, pv)
                if p[0] != "slot":
                    raise HarnessError("store to memory in an expression function")
                slots[p[1]] = val(vt, vv)
                continue
            if op == "load":
                a, b = split_top(rest)
                pt, pv = type_value(b)
                p = val(pt, pv)
                if p[0] == "slot":
                    v = slots[p[1]]
                    regs[dest] = env.vars[v[1]] if isinstance(v, tuple) and v[0] == "param" and v[1] in env.vars else v
                elif p[0] == "elem":
                    _, name, i = p
                    arr, length, elem = env.arrays[name]
                    safe.append(bimplies(g, band(icmp(">=", i, 0), icmp("<", i, length))))
                    accesses.append((g, name, i))
                    regs[dest] = z3.Select(arr, zi(i))
                else:
                    raise HarnessError("load")
                continue
            if op == "getelementptr":
                parts = split_top(rest)
                pt, pv = type_value(parts[1])
                p = val(pt, pv)
                i = val(*type_value(parts[2]))
                if isinstance(p, tuple) and p[0] == "param":
                    regs[dest] = ("elem", p[1], i)
                else:
                    raise HarnessError("gep")
                continue
            if op in ("add", "sub", "mul"):
                ty, ops = rest.split(" ", 1)
                a, b = [x.strip() for x in split_top(ops)]
                va, vb = val(ty, a), val(ty, b)
                v = iadd(va, vb) if op == "add" else isub(va, vb) if op == "sub" else imul(va, vb)
                v, s_ok = env.int_result(v, True)
                safe.append(bimplies(g, s_ok))
                regs[dest] = v
                continue
            if op in ("fadd", "fsub", "fmul"):
                ty, ops = rest.split(" ", 1)
                a, b = [x.strip() for x in split_top(ops)]
                va, vb = val(ty, a), val(ty, b)
                regs[dest] = env.fadd(va, vb) if op == "fadd" else env.fsub(va, vb) if op == "fsub" else env.fmul(va, vb)
                continue
            if op in ("sitofp", "uitofp"):
                mm = re.match(r"(\S+)\s+(\S+)\s+to\s+(\S+)", rest)
                v = val(mm.group(1), mm.group(2))
                if op == "uitofp":
                    v = ite(icmp("<", v, 0), iadd(v, 2**32), v)
                regs[dest] = env.itof(v)
                continue
            if op == "sext":
                mm = re.match(r"(\S+)\s+(\S+)\s+to\s+(\S+)", rest)
                regs[dest] = val(mm.group(1), mm.group(2))
                continue
            if op == "icmp":
                pred, rest2 = rest.split(" ", 1)
                ty, ops = rest2.split(" ", 1)
                a, b = [x.strip() for x in split_top(ops)]
                va, vb = val(ty, a), val(ty, b)
                if ty == "i1":
                    r = sym.beq(va, vb)
                    regs[dest] = r if pred == "eq" else bnot(r)
                else:
                    regs[dest] = icmp_pred(pred, va, vb)
                continue
            if op == "zext":
                mm = re.match(r"(\S+)\s+(\S+)\s+to\s+(\S+)", rest)
                v = val(mm.group(1), mm.group(2))
                # zext of an i32 reads the bit pattern as unsigned
                regs[dest] = ite(v, 1, 0) if mm.group(1) == "i1" else ite(icmp("<", v, 0), iadd(v, 2**32), v)
                continue
            if op == "select":
                c, a, b = split_top(rest)
                vc = val(*type_value(c))
                ta, va = type_value(a)
                tb, vb = type_value(b)
                va, vb = val(ta, va), val(tb, vb)
                regs[dest] = ite(vc, va, vb)
                continue
            if op == "phi":
                ty, ops = rest.split(" ", 1)
                choice = None
                incoming = [re.match(r'\[\s*(\S+)\s*,\s*%"?([^"\]\s]+)"?\s*\]', part).group(2) for part in split_top(ops)]
                if sorted(incoming) != sorted(preds[lab]):
                    # LLVM well-formedness: one entry per predecessor block, no others (the verifier rejects the module)
                    raise Malformed(f"phi entries {incoming} do not match the predecessors {sorted(preds[lab])} of block {lab}")
                for part in reversed(split_top(ops)):
                    mm = re.match(r'\[\s*(\S+)\s*,\s*%"?([^"\]\s]+)"?\s*\]', part)
                    v = val(ty, mm.group(1))
                    e = edge.get((mm.group(2), lab), False)
                    if choice is None:
                        choice = v
                    elif ty == "i1":
                        choice = sym.simp_bool(z3.If(sym.zb(e), sym.zb(v), sym.zb(choice))) if not isinstance(e, bool) else (v if e else choice)
                    elif ty == "double":
                        choice = z3.If(sym.zb(e), trees.rz(v), trees.rz(choice)) if not isinstance(e, bool) else (v if e else choice)
                    else:
                        choice = ite(e, v, choice)
                regs[dest] = choice
                continue
            if op == "br":
                if rest.startswith("label"):
                    t = rest.split("%")[1].strip().strip('"')
                    edge[(lab, t)] = bor(edge.get((lab, t), False), g)
                else:
                    mm = re.match(r'i1\s+(\S+)\s*,\s*label\s+%"?([^",\s]+)"?\s*,\s*label\s+%"?([^",\s]+)"?', rest)
                    c = val("i1", mm.group(1))
                    edge[(lab, mm.group(2))] = bor(edge.get((lab, mm.group(2)), False), band(g, c))
                    edge[(lab, mm.group(3))] = bor(edge.get((lab, mm.group(3)), False), band(g, bnot(c)))
                continue
            if op == "ret":
                ty, v = type_value(rest)
                result[0] = (ty, val(ty, v))
                continue
            raise HarnessError(f"LLVM instruction in expression function: {op}")
    if result[0] is None:
        raise HarnessError("no ret reached")
    ty, v = result[0]
    t = {"i32": "int", "double": "float", "i1": "bool"}[ty]
    return (t, v, band(*safe), tuple(accesses))
