"""E1 — KSE: path-based symbolic executor for tensora IR with z3 (replay forking).

The *machine* (heap, obligations, decisions) is shared by the IR front end in this file and by the
C / LLVM front ends (vlib.cfront, vlib.llfront).
"""

from __future__ import annotations

import time
from dataclasses import dataclass, field

import z3

from . import sym
from .sym import (
    INT_MAX,
    INT_MIN,
    PW,
    band,
    bnot,
    bor,
    iadd,
    icmp,
    imul,
    isub,
    ite,
    simp_bool,
    simp_int,
    zb,
    zi,
)


class PathEnd(Exception):
    def __init__(self, value=None):
        self.value = value


class Infeasible(Exception):
    pass


class HarnessError(Exception):
    """The encoding met something it cannot decide (solver unknown, unsupported construct)."""


class Violation(Exception):
    def __init__(self, kind, label, model=None, detail=None):
        super().__init__(f"{kind}: {label}")
        self.kind = kind
        self.label = label
        self.model = model
        self.detail = detail


# ------------------------------------------------------------------------------------ heap


@dataclass
class Ptr:
    block: int
    off: object = 0  # int | z3 Int


@dataclass(frozen=True)
class TRef:
    name: str


@dataclass(frozen=True)
class FieldRef:
    tensor: str
    attr: str


@dataclass(frozen=True)
class LevelRef:
    tensor: str
    level: int


NULL = Ptr(0, 0)


class InitState:
    """Which cells of a block are initialised.

    ``all``: every cell (input blocks).  Otherwise: concrete offsets in ``cells`` plus a list of
    layers ``(limits, array)``: cell ``o`` is initialised by a layer iff ``array[o]`` and
    ``o < l`` for every limit (limits come from reallocations that carried only a prefix)."""

    __slots__ = ("all", "cells", "layers")

    def __init__(self, all=False):
        self.all = all
        self.cells = set()
        self.layers = []

    def cond(self, off):
        if self.all:
            return True
        if isinstance(off, int):
            if off in self.cells:
                return True
            parts = []
        else:
            parts = [icmp("==", off, k) for k in self.cells]
        for limits, arr in self.layers:
            parts.append(band(*[icmp("<", off, l) for l in limits], z3.Select(arr, zi(off))))
        return bor(*parts)

    def mark(self, off):
        if self.all:
            return
        if isinstance(off, int):
            self.cells.add(off)
            return
        if self.layers and self.layers[-1][0] == ():
            limits, arr = self.layers.pop()
        else:
            arr = z3.K(sym.IntSort, z3.BoolVal(False))
        self.layers.append(((), z3.Store(arr, off, z3.BoolVal(True))))

    def carried(self, keep):
        """State of a reallocated block that keeps the first ``keep`` cells."""
        new = InitState()
        if self.all:
            new.layers = [((keep,), z3.K(sym.IntSort, z3.BoolVal(True)))]
            return new
        cells = self.cells
        if isinstance(keep, int):
            new.cells = {k for k in cells if k < keep}
            cells = ()
        layers = list(self.layers)
        if cells:
            arr = z3.K(sym.IntSort, z3.BoolVal(False))
            for k in cells:
                arr = z3.Store(arr, z3.IntVal(k), z3.BoolVal(True))
            layers.append(((), arr))
        new.layers = [(limits + (keep,), arr) for limits, arr in layers]
        return new


class Block:
    """One allocation.  Contents = concrete-offset overlay ``cells`` on top of a z3 array ``base``
    (overlay entries are always newer than the base)."""

    __slots__ = ("bid", "name", "elem", "length", "base", "cells", "init", "owner", "alive",
                 "hot", "origin")

    def __init__(self, bid, name, elem, length, base=None, init_all=False, owner="kernel"):
        self.bid = bid
        self.name = name
        self.elem = elem  # 'int' | 'float'
        self.length = length
        self.base = base  # z3 Array or None
        self.cells = {}
        self.init = InitState(all=init_all)
        self.owner = owner
        self.alive = True
        self.hot = None  # symbolic input float blocks: list[(z3 Int position, [(guard, weight)])]
        self.origin = None


class Heap:
    def __init__(self):
        self.blocks = [Block(0, "NULL", "int", 0, owner="null")]

    def new(self, name, elem, length, **kw) -> Block:
        b = Block(len(self.blocks), name, elem, length, **kw)
        self.blocks.append(b)
        return b

    def __getitem__(self, bid) -> Block:
        return self.blocks[bid]


@dataclass
class TensorStruct:
    name: str
    order: int
    dimensions: Ptr
    levels: list  # per level: None (dense: zero-length slot array) or [Ptr, Ptr]
    vals: Ptr
    is_output: bool
    modes: tuple = ()
    ordering: tuple = ()


# ------------------------------------------------------------------------------------ stats


@dataclass
class Stats:
    paths: int = 0
    decisions: int = 0
    queries: int = 0
    solver_s: float = 0.0
    obligations: int = 0
    loop_iters: int = 0
    infeasible: int = 0

    def add(self, o: "Stats"):
        for k in self.__dataclass_fields__:
            setattr(self, k, getattr(self, k) + getattr(o, k))

    def asdict(self):
        return {k: (round(v, 3) if isinstance(v, float) else v) for k, v in self.__dict__.items()}


# ------------------------------------------------------------------------------------ machine


class Machine:
    """Decisions, path condition, obligations, heap.  One Machine = one path."""

    def __init__(self, prefix=(), *, timeout_ms=30000, max_loop_iter=64, falg=None, concrete=False,
                 solver=None):
        self.prefix = list(prefix)
        self.taken: list[bool] = []
        self.pending: list[list[bool]] = []
        self.concrete = concrete
        if concrete:
            self.solver = None
        elif solver is not None:
            self.solver = solver
        else:
            self.solver = z3.Solver()
            self.solver.set("timeout", timeout_ms)
        self.replaying = len(self.prefix) > 0
        self.assume_mode = False  # obligations become assumptions ("states where this runs safely")
        self.pc: list = []
        self.obligations: list = []
        self.heap = Heap()
        self.tensors: dict[str, TensorStruct] = {}
        self.stats = Stats()
        self.max_loop_iter = max_loop_iter
        self.falg = falg or sym.PWAlgebra()
        self.cap0 = None  # symbolic initial capacity (set by harness)
        self.cap_sentinel = None
        self.trace_accesses = None  # optional list of (kind, block, off)
        self.alloc_log: list = []  # (kind, new bid, old bid)
        self.steps = 0
        self.loop_counts: dict = {}
        self.covered: set = set()
        self.check_int32 = True
        self.frozen_alloc = False  # C04: compute must not allocate
        self.store_whitelist = None  # C04: set of block ids that may be stored to

    # ---- solver plumbing
    def assume(self, c):
        if isinstance(c, bool):
            if not c:
                raise Infeasible()
            return
        self.pc.append(c)
        self.solver.add(c)

    def check(self, *extra):
        t0 = time.perf_counter()
        r = self.solver.check(*extra)
        self.stats.solver_s += time.perf_counter() - t0
        self.stats.queries += 1
        if r == z3.unknown:
            raise HarnessError(f"solver unknown: {self.solver.reason_unknown()}")
        return r

    def decide(self, cond) -> bool:
        c = simp_bool(cond)
        if isinstance(c, bool):
            return c
        if self.concrete:
            raise HarnessError(f"symbolic condition in concrete mode: {c}")
        idx = len(self.taken)
        if idx < len(self.prefix):
            d = self.prefix[idx]
            self.taken.append(d)
            self.assume(c if d else z3.Not(c))
            if len(self.taken) == len(self.prefix):
                # everything before this point was discharged by the path we were forked from
                self.obligations = []
                self.replaying = False
            return d
        # obligations generated so far must hold whatever happens next
        self.flush_obligations()
        self.stats.decisions += 1
        can_t = self.check(c)
        if can_t == z3.unsat:
            self.taken.append(False)
            self.assume(z3.Not(c))
            return False
        can_f = self.check(z3.Not(c))
        if can_f == z3.unsat:
            self.taken.append(True)
            self.assume(c)
            return True
        self.pending.append(self.taken + [False])
        self.taken.append(True)
        self.assume(c)
        return True

    def skip_obligations(self):
        return self.replaying and not self.assume_mode

    def oblige(self, cond, label):
        if cond is True:
            return
        if self.assume_mode:
            c = simp_bool(cond)
            if c is True:
                return
            if c is False:
                raise Infeasible()
            if self.replaying:
                self.assume(c)
                return
            if self.check(c) == z3.unsat:
                raise Infeasible()
            self.assume(c)
            return
        if self.replaying:
            return
        self.stats.obligations += 1
        if cond is False:
            model = None
            if not self.concrete:
                self.check()
                model = self.solver.model()
            raise Violation("safety", label, model)
        self.obligations.append((cond, label))

    def flush_obligations(self):
        if not self.obligations:
            return
        obs = []
        for c, w in self.obligations:
            c = simp_bool(c)
            if c is True:
                continue
            if c is False:
                self.check()
                raise Violation("safety", w, self.solver.model())
            obs.append((c, w))
        self.obligations = []
        if not obs:
            return
        r = self.check(z3.Not(z3.And(*[c for c, _ in obs])))
        if r == z3.unsat:
            return
        m = self.solver.model()
        for c, w in obs:
            if not z3.is_true(m.eval(c, model_completion=True)):
                raise Violation("safety", w, m)
        raise HarnessError("sat but no obligation false in model")

    def value_is(self, term):
        """If ``term`` has one value under the path condition, return it, else None."""
        term = simp_int(term)
        if isinstance(term, int):
            return term
        if self.check() != z3.sat:
            raise Infeasible()
        v = self.solver.model().eval(term, model_completion=True).as_long()
        if self.check(term != v) == z3.unsat:
            return v
        return None

    # ---- memory
    def _bounds(self, b: Block, off, what):
        if isinstance(off, int) and isinstance(b.length, int):
            return 0 <= off < b.length
        return band(icmp(">=", off, 0), icmp("<", off, b.length))

    def load(self, p: Ptr, label):
        b = self.heap[p.block]
        off = simp_int(p.off)
        if self.trace_accesses is not None:
            self.trace_accesses.append(("load", p.block, off))
        if p.block == 0:
            self.oblige(False, ("null-load", label))
        if not b.alive:
            self.oblige(False, ("use-after-free load", b.name, label))
        if not self.skip_obligations():
            self.oblige(self._bounds(b, off, label), ("load out of bounds", b.name, label))
            self.oblige(simp_bool(b.init.cond(off)), ("uninitialised read", b.name, label))
        return self.read_cell(b, off)

    def read_cell(self, b: Block, off):
        """Read without obligations (also used by oracles)."""
        if isinstance(off, int):
            if off in b.cells:
                return b.cells[off]
            if b.hot is not None:
                return self._hot_value(b, off)
            if b.base is None:
                return 0 if b.elem == "int" else self.falg.const(0)
            t = z3.Select(b.base, z3.IntVal(off))
            return self._from_term(b, t, off)
        # symbolic offset: fold the overlay in
        if b.elem == "float" and b.hot is not None and not b.cells:
            return self._hot_value(b, off)
        self._spill(b)
        if b.base is None:
            return 0 if b.elem == "int" else self.falg.const(0)
        t = z3.Select(b.base, off)
        return self._from_term(b, t, off)

    def _from_term(self, b, t, off):
        if b.elem == "int":
            return simp_int(t)
        if b.hot is not None:
            return self._hot_value(b, off)
        return self.falg.from_cell(t)

    def _hot_value(self, b, off):
        terms = []
        for e, weights in b.hot:
            for w_guard, w in weights:
                terms.append((band(icmp("==", e, off), w_guard), w))
        if isinstance(self.falg, sym.PWAlgebra):
            return PW(terms).normalized()
        raise HarnessError("hot blocks need the PW algebra")

    def _spill(self, b: Block):
        if not b.cells:
            return
        sort = sym.IntSort if b.elem == "int" else sym.RealSort
        base = b.base
        if base is None:
            base = z3.K(sym.IntSort, z3.IntVal(0) if b.elem == "int" else z3.RealVal(0))
        for k, v in b.cells.items():
            tv = zi(v) if b.elem == "int" else self.falg.to_cell(v)
            base = z3.Store(base, z3.IntVal(k), tv)
        b.base = base
        b.cells = {}
        del sort

    def store(self, p: Ptr, value, label):
        b = self.heap[p.block]
        off = simp_int(p.off)
        if self.trace_accesses is not None:
            self.trace_accesses.append(("store", p.block, off))
        if p.block == 0:
            self.oblige(False, ("null-store", label))
        if not b.alive:
            self.oblige(False, ("use-after-free store", b.name, label))
        if b.owner != "kernel":
            self.oblige(False, ("store to memory the kernel does not own", b.name, label))
        if self.store_whitelist is not None and p.block not in self.store_whitelist:
            self.oblige(False, ("store outside the permitted array", b.name, label))
        if not self.skip_obligations():
            self.oblige(self._bounds(b, off, label), ("store out of bounds", b.name, label))
        if b.elem == "float" and not isinstance(value, (PW, sym.UF)):
            value = self.falg.from_int(value)
        if b.elem == "int" and isinstance(value, (PW, sym.UF)):
            raise HarnessError(f"float stored into int array {b.name}")
        b.init.mark(off)
        if isinstance(off, int):
            b.cells[off] = value
            return
        self._spill(b)
        base = b.base
        if base is None:
            base = z3.K(sym.IntSort, z3.IntVal(0) if b.elem == "int" else z3.RealVal(0))
        tv = zi(value) if b.elem == "int" else self.falg.to_cell(value)
        b.base = z3.Store(base, off, tv)

    def allocate(self, elem, n, label, name=None):
        if self.frozen_alloc:
            self.oblige(False, ("allocation in a kernel that must not allocate", label))
        n = simp_int(n)
        self.oblige(icmp(">=", n, 0), ("negative allocation size", label))
        b = self.heap.new(name or f"alloc{len(self.heap.blocks)}", elem, n)
        self.alloc_log.append(("alloc", b.bid, None))
        return Ptr(b.bid, 0)

    def reallocate(self, old: Ptr, elem, n, label):
        if self.frozen_alloc:
            self.oblige(False, ("reallocation in a kernel that must not allocate", label))
        n = simp_int(n)
        self.oblige(icmp(">=", n, 0), ("negative allocation size", label))
        ob = self.heap[old.block]
        if old.block != 0:
            if not ob.alive:
                self.oblige(False, ("realloc of freed block", ob.name, label))
            if ob.owner != "kernel":
                self.oblige(False, ("realloc of memory the kernel does not own", ob.name, label))
            self.oblige(icmp("==", simp_int(old.off), 0), ("realloc of interior pointer", label))
            if ob.elem != elem:
                raise HarnessError("realloc changes element type")
        nb = self.heap.new(ob.name if old.block else f"alloc{len(self.heap.blocks)}", elem, n)
        nb.origin = old.block
        self.alloc_log.append(("realloc", nb.bid, old.block))
        if old.block != 0:
            ob.alive = False
            nb.base = ob.base
            nb.hot = ob.hot
            keep = ite(icmp("<", n, ob.length), n, ob.length)
            keep = simp_int(keep)
            if isinstance(keep, int):
                nb.cells = {k: v for k, v in ob.cells.items() if k < keep}
            else:
                nb.cells = dict(ob.cells)
            nb.init = ob.init.carried(keep)
        return Ptr(nb.bid, 0)

    # ---- integer arithmetic with the int32 obligation
    def int_op(self, op, a, b, label):
        if op == "+":
            r = iadd(a, b)
        elif op == "-":
            r = isub(a, b)
        else:
            r = imul(a, b)
        if self.check_int32 and not self.skip_obligations():
            if isinstance(r, int):
                if not (INT_MIN <= r <= INT_MAX):
                    self.oblige(False, ("int32 overflow", label))
            else:
                self.oblige(sym.in_int32(r), ("int32 overflow", label))
        return r
