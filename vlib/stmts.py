"""E3 for statements: small IR statement programs, original vs peephole_statement(original),
executed on the same symbolic environment by the path-based machine."""

from __future__ import annotations

import itertools

import z3
from tensora.ir import ast as ir
from tensora.ir import types as irt

from . import kassert, sym
from .irexec import IRExec
from .kse import HarnessError, Infeasible, Machine, PathEnd, Ptr, Stats, Violation
from .sym import band, icmp, simp_bool

X, Y, P, U = ir.Variable("x"), ir.Variable("y"), ir.Variable("p"), ir.Variable("u")
IA, FA = ir.Variable("ia"), ir.Variable("fa")
I0, I1, I2 = ir.IntegerLiteral(0), ir.IntegerLiteral(1), ir.IntegerLiteral(2)
TRUE, FALSE = ir.BooleanLiteral(True), ir.BooleanLiteral(False)

CONDITIONS = [
    TRUE, FALSE, P,
    ir.LessThan(X, Y), ir.Equal(X, X), ir.LessThan(X, X), ir.GreaterThanOrEqual(Y, Y),
    ir.And(P, TRUE), ir.And(FALSE, P), ir.Or(P, FALSE), ir.Or(TRUE, P),
    ir.And(ir.LessThan(X, I2), ir.Equal(ir.ArrayIndex(IA, X), I0)),
    ir.NotEqual(ir.Add(X, I0), Y),
]

INT_RHS = [X, I0, ir.Add(X, I0), ir.Multiply(X, I1), ir.Multiply(X, I0), ir.Add(X, I1), Y,
           ir.Subtract(X, I0), ir.ArrayIndex(IA, I0), ir.BooleanToInteger(TRUE),
           ir.Add(ir.Multiply(I1, X), ir.Multiply(Y, I0))]
FLOAT_RHS = [U, ir.Add(U, ir.FloatLiteral(0.0)), ir.Multiply(U, ir.FloatLiteral(1.0)),
             ir.Multiply(U, ir.FloatLiteral(0.0)), ir.Multiply(ir.FloatLiteral(1.5), U)]


def atomic_statements():
    out = []
    for e in INT_RHS:
        out.append(ir.Assignment(X, e))
    out.append(ir.Assignment(Y, ir.Add(Y, I0)))
    out.append(ir.Assignment(Y, X))
    for e in FLOAT_RHS:
        out.append(ir.Assignment(U, e))
    out.append(ir.Assignment(P, ir.And(P, TRUE)))
    out.append(ir.Assignment(P, FALSE))
    out.append(ir.Assignment(ir.ArrayIndex(IA, I0), ir.Add(X, I0)))
    out.append(ir.Assignment(ir.ArrayIndex(IA, ir.Add(I0, I1)), ir.ArrayIndex(IA, ir.Add(I0, I1))))
    out.append(ir.Assignment(ir.ArrayIndex(IA, ir.Multiply(X, I0)), Y))
    out.append(ir.Assignment(ir.ArrayIndex(FA, I0), ir.Multiply(U, ir.FloatLiteral(1.0))))
    out.append(ir.DeclarationAssignment(ir.Declaration(ir.Variable("z"), irt.integer), ir.Add(X, I0)))
    out.append(ir.Block([]))
    out.append(ir.Return(ir.Add(X, I0)))
    out.append(ir.Return(I1))
    return out


def depth2(atoms):
    """Branch / Loop / Block over atomic statements."""
    for c in CONDITIONS:
        for a in atoms:
            yield ir.Loop(c, a)
            yield ir.Loop(c, ir.Block([a]))
            for b in atoms:
                yield ir.Branch(c, a, b)
    for a in atoms:
        for b in atoms:
            yield ir.Block([a, b])
    # typical loop shapes
    inc = ir.Assignment(X, ir.Add(X, I1))
    for c in CONDITIONS:
        yield ir.Loop(c, ir.Block([inc, ir.Assignment(P, FALSE)]))
        yield ir.Loop(c, ir.Block([]))
        yield ir.Loop(c, ir.Block([ir.Block([])]))
        yield ir.Loop(c, ir.Assignment(X, X))


def depth3(atoms, stride, offset):
    """Bodies of <= 2 statements drawn from depth-2 statements (sub-sampled)."""
    d2 = [s for k, s in enumerate(depth2(atoms)) if k % stride == offset % stride]
    few = atoms[:: max(1, len(atoms) // 6)]
    for c in CONDITIONS[::2]:
        for s in d2:
            yield ir.Branch(c, s, ir.Block([]))
            yield ir.Branch(c, ir.Block([]), s)
            yield ir.Loop(c, ir.Block([s, ir.Assignment(P, FALSE)]))
    for s in d2:
        for a in few:
            yield ir.Block([s, a])
            yield ir.Block([a, s])


# ------------------------------------------------------------------ control-structure skeletons
#
# The lists above vary the *atoms* under one or two levels of control structure.  Skeletons vary the control
# structure itself: every nesting of Block / if / if-else / else-only up to a size bound, decorated so that
# each statement's execution is observable (x = 5 * x + k encodes the executed sequence) and each condition is
# an independent symbolic input (ia[k] < 0), plus a "flags" family in which leaves set the boolean p to a
# literal and conditions read it (the written-flag idiom of generated kernels).


import functools as _functools


@_functools.lru_cache(None)
def _shapes(n, depth):
    out = []
    if n == 1:
        out.append("A")
    if depth == 0:
        return tuple(out)

    def comps(n, k):
        if k == 1:
            yield (n,)
            return
        for a in range(1, n - k + 2):
            for r in comps(n - a, k - 1):
                yield (a,) + r

    for k in (2, 3):
        for comp in comps(n, k):
            for parts in itertools.product(*[_shapes(c, depth - 1) for c in comp]):
                if any(isinstance(p, tuple) and p[0] == "B" for p in parts):
                    continue  # a block directly inside a block
                out.append(("B",) + parts)
    for a in range(1, n):
        for s1 in _shapes(a, depth - 1):
            for s2 in _shapes(n - a, depth - 1):
                out.append(("I", s1, s2))
    for s1 in _shapes(n, depth - 1):
        out.append(("I", s1, None))  # if without else
        out.append(("E", s1))  # empty then-arm
    return tuple(out)


def _nconds(s):
    if s == "A" or s is None:
        return 0
    if s[0] == "B":
        return sum(_nconds(x) for x in s[1:])
    if s[0] == "I":
        return 1 + _nconds(s[1]) + _nconds(s[2])
    return 1 + _nconds(s[1])


def _build(shape, leaves, conds):
    """leaves / conds: iterators of IR atoms / conditions consumed in program order."""
    if shape == "A":
        return next(leaves)
    if shape[0] == "B":
        return ir.Block([_build(x, leaves, conds) for x in shape[1:]])
    c = next(conds)
    if shape[0] == "I":
        a = _build(shape[1], leaves, conds)
        b = ir.Block([]) if shape[2] is None else _build(shape[2], leaves, conds)
        return ir.Branch(c, a, b)
    return ir.Branch(c, ir.Block([]), _build(shape[1], leaves, conds))


def _track(k):
    return ir.Assignment(X, ir.Add(ir.Multiply(X, ir.IntegerLiteral(5)), ir.IntegerLiteral(k)))


def _input_cond(k):
    return ir.LessThan(ir.ArrayIndex(IA, ir.IntegerLiteral(k % 3)), I0)


def skeleton_structures(max_leaves=4, max_conds=3, depth=3):
    """Every control-structure shape within the bound, tracking leaves, independent input conditions."""
    for n in range(1, max_leaves + 1):
        for shape in _shapes(n, depth):
            c = _nconds(shape)
            if c == 0 or c > max_conds:
                continue
            yield _build(shape, iter([_track(k + 1) for k in range(n)]), iter([_input_cond(k) for k in range(c)]))


def skeleton_flags(max_leaves=3, max_conds=2, depth=2):
    """Shapes of depth <= 2 with every decoration in which a leaf sets p to a literal and a condition reads p."""
    for n in range(1, max_leaves + 1):
        for shape in _shapes(n, depth):
            c = _nconds(shape)
            if c == 0 or c > max_conds:
                continue
            for kinds in itertools.product("tTF", repeat=n):
                if all(k == "t" for k in kinds):
                    continue
                for cks in itertools.product("pi", repeat=c):
                    if "p" not in cks:
                        continue
                    leaves = [_track(k + 1) if kd == "t" else ir.Assignment(P, TRUE if kd == "T" else FALSE)
                              for k, kd in enumerate(kinds)]
                    conds = [P if ck == "p" else _input_cond(k) for k, ck in enumerate(cks)]
                    yield _build(shape, iter(leaves), iter(conds))


def _count_ifs(s):
    if s == "A" or s is None:
        return 0
    if s[0] == "B":
        return sum(_count_ifs(x) for x in s[1:])
    if s[0] == "I":
        return (1 if s[2] is None else 0) + _count_ifs(s[1]) + _count_ifs(s[2])
    return _count_ifs(s[1])


def _build_loops(shape, leaves, conds, loops):
    """Like _build, but an if-without-else becomes a while loop where ``loops`` says so."""
    if shape == "A":
        return next(leaves)
    if shape[0] == "B":
        return ir.Block([_build_loops(x, leaves, conds, loops) for x in shape[1:]])
    c = next(conds)
    if shape[0] == "I":
        if shape[2] is None:
            as_loop = next(loops)
            a = _build_loops(shape[1], leaves, conds, loops)
            return ir.Loop(c, a) if as_loop else ir.Branch(c, a, ir.Block([]))
        a = _build_loops(shape[1], leaves, conds, loops)
        b = _build_loops(shape[2], leaves, conds, loops)
        return ir.Branch(c, a, b)
    return ir.Branch(c, ir.Block([]), _build_loops(shape[1], leaves, conds, loops))


def skeleton_returns(max_leaves=3, max_conds=2, depth=2):
    """Early exits: leaves are tracking assignments or `return k`, an if-without-else may be a while loop (its
    condition is an input, so it runs zero times or until its body returns - paths that spin are outside the
    unwinding bound)."""
    for n in range(1, max_leaves + 1):
        for shape in _shapes(n, depth):
            c = _nconds(shape)
            if c == 0 or c > max_conds:
                continue
            n_if = _count_ifs(shape)
            for kinds in itertools.product("tR", repeat=n):
                if "R" not in kinds:
                    continue
                for loops in itertools.product([False, True], repeat=n_if):
                    leaves = [_track(k + 1) if kd == "t" else ir.Return(ir.IntegerLiteral(k + 1)) for k, kd in enumerate(kinds)]
                    yield _build_loops(shape, iter(leaves), iter([_input_cond(k) for k in range(c)]), iter(loops))


def skeletons():
    yield from skeleton_structures()
    yield from skeleton_flags()
    yield from skeleton_returns()


INIT_VARS = {"x": "int", "y": "int", "u": "float", "p": "bool"}


class StmtHarness:
    def __init__(self, peephole_statement, max_loop_iter=3):
        self.peephole_statement = peephole_statement
        self.max_loop_iter = max_loop_iter
        self.solver = z3.Solver()
        self.solver.set("timeout", 20000)
        self.x, self.y = z3.Int("x"), z3.Int("y")
        self.u = z3.Real("u")
        self.p = z3.Bool("p")
        self.ia = z3.Array("ia", sym.IntSort, sym.IntSort)
        self.fa = z3.Array("fa", sym.IntSort, sym.RealSort)
        self.base = [sym.in_int32(self.x), sym.in_int32(self.y)] + \
                    [sym.in_int32(z3.Select(self.ia, k)) for k in range(3)]
        for c in self.base:
            self.solver.add(c)
        self.stats = Stats()

    def fresh_env(self, m: Machine, tag):
        ib = m.heap.new(f"ia{tag}", "int", 3, base=self.ia, owner="kernel")
        ib.init.all = True
        fb = m.heap.new(f"fa{tag}", "float", 3, base=self.fa, owner="kernel")
        fb.init.all = True
        ex = IRExec(m)
        ex.env = {"x": self.x, "y": self.y, "u": sym.PW([], self.u), "p": self.p,
                  "ia": Ptr(ib.bid, 0), "fa": Ptr(fb.bid, 0)}
        ex.types = {"x": irt.integer, "y": irt.integer, "u": irt.float, "p": irt.boolean,
                    "ia": irt.Pointer(irt.integer), "fa": irt.Pointer(irt.float)}
        return ex, ib, fb

    def run_one(self, ex, stmt):
        try:
            ex.ex(stmt)
        except PathEnd as pe:
            return ("return", pe.value)
        return ("end", None)

    def check(self, stmt):
        """None if equivalent on every state where the original runs safely to completion within
        the unwinding bound; else a dict."""
        opt = self.peephole_statement(stmt)
        if opt == stmt:
            return None
        work = [[]]
        n_paths = 0
        while work:
            prefix = work.pop()
            m = Machine(prefix, solver=self.solver, max_loop_iter=self.max_loop_iter)
            m.pc = list(self.base)
            self.solver.push()
            try:
                r = self._path(m, stmt, opt)
                if r is not None:
                    return r
                n_paths += 1
            except Infeasible:
                pass
            finally:
                self.solver.pop()
                self.stats.queries += m.stats.queries
                self.stats.solver_s += m.stats.solver_s
                self.stats.decisions += m.stats.decisions
            work.extend(m.pending)
        self.stats.paths += n_paths
        return None

    def _path(self, m: Machine, stmt, opt):
        # original: its safety obligations are *assumed* (states where it runs safely)
        ex0, ia0, fa0 = self.fresh_env(m, 0)
        m.assume_mode = True
        m.trace_accesses = []
        try:
            end0 = self.run_one(ex0, stmt)
        except Violation as v:
            if v.kind == "unwind":
                raise Infeasible()  # original does not terminate within the bound: outside
            raise Infeasible()
        trace0 = m.trace_accesses
        m.assume_mode = False
        ex1, ia1, fa1 = self.fresh_env(m, 1)
        m.trace_accesses = []
        try:
            end1 = self.run_one(ex1, opt)
            m.flush_obligations()
        except Violation as v:
            return self._cex(m, stmt, opt, f"optimised program violates: {v.kind} {v.label}", v.model)
        trace1 = m.trace_accesses
        m.trace_accesses = None
        conds = []
        if end0[0] != end1[0]:
            return self._cex(m, stmt, opt, f"termination differs: {end0[0]} vs {end1[0]}", None)
        if end0[0] == "return":
            conds.append((self._eq(m, end0[1], end1[1]), ("return value differs",)))
        for name in INIT_VARS:
            conds.append((self._eq(m, ex0.env[name], ex1.env[name]), ("final value differs", name)))
        for b0, b1 in ((ia0, ia1), (fa0, fa1)):
            for k in range(3):
                conds.append((self._eq(m, m.read_cell(b0, k), m.read_cell(b1, k)),
                              ("array cell differs", b0.name, k)))
        mp = {ia1.bid: ia0.bid, fa1.bid: fa0.bid}
        by = {}
        for kind, b, off in trace0:
            by.setdefault((kind, b), []).append(off)
        for kind, b, off in trace1:
            cands = by.get((kind, mp.get(b, b)), [])
            conds.append((sym.bor(*[icmp("==", off, c) for c in cands]),
                          ("access the original did not perform", kind, m.heap[b].name)))
        try:
            kassert.discharge(m, conds, "not-equivalent")
        except Violation as v:
            return self._cex(m, stmt, opt, f"{v.label}", v.model)
        return None

    def _eq(self, m, a, b):
        if isinstance(a, (sym.PW, sym.UF)) or isinstance(b, (sym.PW, sym.UF)):
            if not isinstance(a, (sym.PW, sym.UF)):
                a = m.falg.from_int(a)
            if not isinstance(b, (sym.PW, sym.UF)):
                b = m.falg.from_int(b)
            return m.falg.eq(a, b)
        if isinstance(a, (bool, z3.BoolRef)):
            return sym.beq(a, b)
        if a is None or b is None:
            return a is b
        return icmp("==", a, b)

    def _cex(self, m, stmt, opt, why, model):
        if model is None:
            m.check()
            model = m.solver.model()
        env = {k: str(model.eval(v, model_completion=True)) for k, v in
               {"x": self.x, "y": self.y, "u": self.u, "p": self.p}.items()}
        env["ia"] = [str(model.eval(z3.Select(self.ia, k), model_completion=True)) for k in range(3)]
        return {"statement": repr(stmt), "optimised": repr(opt), "why": why, "env": env}
