"""E2 (C): execute the C text emitted by tensora's C printer on the E1 machine.

The text is preprocessed with ``gcc -E -P`` behind a minimal prelude plus the *real*
``taco_define_header`` / ``taco_type_header`` strings and parsed by pycparser, so precedence and
associativity come from a C parser that knows nothing about ``parens()``.
"""

from __future__ import annotations

import subprocess

import z3
from pycparser import c_ast, c_parser

from . import sym
from .kse import FieldRef, HarnessError, LevelRef, Machine, PathEnd, Ptr, TRef, Violation
from .sym import PW, UF, band, bnot, icmp, ite, simp_bool, simp_int

PRELUDE = """
typedef int int32_t;
typedef long long int64_t;
typedef unsigned long size_t;
typedef _Bool bool;
#define true 1
#define false 0
#define restrict
void* malloc(size_t n);
void* realloc(void* p, size_t n);
"""


def headers():
    from tensora.compile._cffi_ownership import taco_type_header
    from tensora.compile._compile_cffi import taco_define_header

    return taco_define_header.replace("#include <stdbool.h>", ""), taco_type_header


def preprocess(code: str) -> str:
    define, types = headers()
    src = PRELUDE + define + types + "\n" + code + "\n"
    p = subprocess.run(["gcc", "-E", "-P", "-x", "c", "-"], input=src, capture_output=True, text=True)
    if p.returncode != 0:
        raise HarnessError("gcc -E failed: " + p.stderr[-500:])
    return p.stdout


def parse_functions(code: str) -> dict:
    """name -> c_ast.FuncDef"""
    text = preprocess(code)
    parser = c_parser.CParser()
    ast = parser.parse(text, filename="<kernel>")
    out = {}
    for ext in ast.ext:
        if isinstance(ext, c_ast.FuncDef):
            out[ext.decl.name] = ext
    return out


class Bytes:
    """sizeof(T) * n"""

    def __init__(self, count, unit):
        self.count = count
        self.unit = unit


class CBool:
    """A C int that is known to be 0/1 (result of a comparison / logical operator / bool)."""

    __slots__ = ("b",)

    def __init__(self, b):
        self.b = b


def is_float(v):
    return isinstance(v, (PW, UF))


def ctype_of(decl_type) -> str:
    """'int' | 'double' | 'bool' | 'int*' | 'double*' | 'tensor*'"""
    t = decl_type
    depth = 0
    while isinstance(t, c_ast.PtrDecl):
        depth += 1
        t = t.type
    if isinstance(t, c_ast.TypeDecl):
        t = t.type
    names = t.names if isinstance(t, c_ast.IdentifierType) else [getattr(t, "name", "?")]
    base = " ".join(names)
    base = {"int32_t": "int", "int": "int", "double": "double", "bool": "bool", "_Bool": "bool",
            "taco_tensor_t": "tensor", "size_t": "long", "unsigned long": "long", "long long": "long",
            "int64_t": "long"}.get(base, base)
    if base not in ("int", "double", "bool", "tensor", "long", "void"):
        # the IR has int32 / double / boolean / tensor and pointers to them: any other C type (float, unsigned,
        # short, ...) changes the arithmetic and is not modelled - reported, never silently read as int/double
        from .kse import Violation

        raise Violation("ill-formed", ("emitted C declares a type the IR does not have", base))
    return base + "*" * depth


SIZEOF = {"int": 4, "int32_t": 4, "double": 8, "bool": 1, "_Bool": 1}


class CExec:
    def __init__(self, m: Machine, cap_literal=None):
        self.m = m
        self.scopes = [{}]
        self.types = [{}]
        self.cap_literal = cap_literal  # (a, b): the product a*b is the default capacity
        self.covered = set()

    # ---- environment
    def lookup(self, name):
        for sc in reversed(self.scopes):
            if name in sc:
                return sc
        raise HarnessError(f"undeclared identifier {name}")

    def type_of_var(self, name):
        for sc in reversed(self.types):
            if name in sc:
                return sc[name]
        raise HarnessError(f"undeclared identifier {name}")

    def declare(self, name, ctype, value):
        self.scopes[-1][name] = value
        self.types[-1][name] = ctype

    # ---- conversions
    def to_int(self, v):
        if isinstance(v, CBool):
            return simp_int(ite(v.b, 1, 0))
        return v

    def to_bool(self, v):
        if isinstance(v, CBool):
            return v.b
        if is_float(v) or isinstance(v, Ptr):
            raise HarnessError("truth value of non-integer")
        return icmp("!=", v, 0)

    def convert(self, value, ctype):
        m = self.m
        if ctype == "double":
            if is_float(value):
                return value
            return m.falg.from_int(self.to_int(value))
        if ctype == "bool":
            if isinstance(value, CBool):
                return value
            if is_float(value):
                raise HarnessError("double to bool")
            return CBool(icmp("!=", value, 0))
        if ctype in ("int", "long"):
            if is_float(value):
                raise HarnessError("double to int conversion")
            return self.to_int(value)
        return value

    # ---- expressions
    def ev(self, e):
        m = self.m
        t = type(e)
        if t is c_ast.ID:
            v = self.lookup(e.name)[e.name]
            if v is None:
                m.oblige(False, ("read of uninitialised variable", e.name))
            return v
        if t is c_ast.Constant:
            if e.type in ("int", "long int", "long long int", "unsigned int"):
                return int(e.value.rstrip("uUlL"), 0)
            if e.type in ("double", "float"):
                fv = float(e.value.rstrip("fFlL"))
                if fv != fv or fv in (float("inf"), float("-inf")):
                    from .kse import Violation

                    raise Violation("ill-formed", ("C floating constant outside the range of double", e.value))
                return m.falg.const(sym.frac_of_float(fv))
            raise HarnessError(f"constant type {e.type}")
        if t is c_ast.StructRef:
            base = self.ev(e.name)
            if not isinstance(base, TRef) or e.type != "->":
                raise HarnessError("unsupported struct access")
            ts = m.tensors[base.name]
            f = e.field.name
            if f == "dimensions":
                return ts.dimensions
            if f == "vals":
                return ts.vals
            if f == "indices":
                return FieldRef(base.name, "indices")
            if f == "order":
                return ts.order
            raise HarnessError(f"unsupported field {f}")
        if t is c_ast.ArrayRef:
            base = self.ev(e.name)
            idx = self.to_int(self.ev(e.subscript))
            return self.load_index(base, idx)
        if t is c_ast.BinaryOp:
            return self.binop(e)
        if t is c_ast.TernaryOp:
            c = self.to_bool(self.ev(e.cond))
            a = self.ev(e.iftrue)
            b = self.ev(e.iffalse)
            if is_float(a) or is_float(b):
                return m.falg.select(c, self.convert(a, "double"), self.convert(b, "double"))
            return simp_int(ite(c, self.to_int(a), self.to_int(b)))
        if t is c_ast.Cast:
            v = self.ev(e.expr)
            return self.convert(v, ctype_of(e.to_type.type))
        if t is c_ast.UnaryOp:
            if e.op == "sizeof":
                ty = e.expr
                names = ty.type.type.names if isinstance(ty, c_ast.Typename) else None
                if names is None or " ".join(names) not in SIZEOF:
                    from .kse import Violation

                    raise Violation("ill-formed", ("emitted C takes sizeof of a type the IR does not have", " ".join(names or ["?"])))
                return Bytes(1, SIZEOF[" ".join(names)])
            if e.op == "-":
                v = self.ev(e.expr)
                if is_float(v):
                    return m.falg.sub(m.falg.const(0), v)
                return m.int_op("-", 0, self.to_int(v), ("neg",))
            if e.op == "!":
                return CBool(bnot(self.to_bool(self.ev(e.expr))))
            if e.op in ("p++", "p--", "++", "--"):
                old = self.ev(e.expr)
                if is_float(old):
                    one = m.falg.const(1)
                    new = m.falg.add(old, one) if "+" in e.op else m.falg.sub(old, one)
                elif isinstance(old, Ptr):
                    raise HarnessError("pointer increment")
                else:
                    new = m.int_op("+" if "+" in e.op else "-", self.to_int(old), 1, ("incdec",))
                self.assign(e.expr, new)
                return old if e.op.startswith("p") else new
            raise HarnessError(f"unary {e.op}")
        if t is c_ast.FuncCall:
            return self.call(e, None)
        raise HarnessError(f"unsupported C expression {t.__name__}")

    def binop(self, e):
        m = self.m
        op = e.op
        if op == "&&":
            a = self.to_bool(self.ev(e.left))
            if isinstance(a, bool):
                return CBool(self.to_bool(self.ev(e.right))) if a else CBool(False)
            if m.decide(a):
                return CBool(self.to_bool(self.ev(e.right)))
            return CBool(False)
        if op == "||":
            a = self.to_bool(self.ev(e.left))
            if isinstance(a, bool):
                return CBool(True) if a else CBool(self.to_bool(self.ev(e.right)))
            if m.decide(a):
                return CBool(True)
            return CBool(self.to_bool(self.ev(e.right)))
        a = self.ev(e.left)
        b = self.ev(e.right)
        if op in ("+", "-", "*"):
            if isinstance(a, Bytes) or isinstance(b, Bytes):
                if op != "*":
                    raise HarnessError("arithmetic on sizeof")
                if isinstance(a, Bytes) and not isinstance(b, Bytes):
                    return Bytes(sym.imul(a.count, self.to_int(b)), a.unit)
                if isinstance(b, Bytes) and not isinstance(a, Bytes):
                    return Bytes(sym.imul(b.count, self.to_int(a)), b.unit)
                raise HarnessError("sizeof * sizeof")
            if isinstance(a, Ptr):
                if op == "+":
                    return Ptr(a.block, simp_int(sym.iadd(a.off, self.to_int(b))))
                raise HarnessError("pointer arithmetic")
            if is_float(a) or is_float(b):
                a, b = self.convert(a, "double"), self.convert(b, "double")
                return m.falg.add(a, b) if op == "+" else m.falg.sub(a, b) if op == "-" else m.falg.mul(a, b)
            if self.cap_literal is not None and op == "*" and m.cap0 is not None and \
                    (a, b) == self.cap_literal and isinstance(e.left, c_ast.Constant) and isinstance(e.right, c_ast.Constant):
                return m.cap0
            return m.int_op(op, self.to_int(a), self.to_int(b), ("C " + op,))
        if op in ("==", "!=", "<", "<=", ">", ">="):
            if is_float(a) or is_float(b):
                raise HarnessError("floating comparison")
            if isinstance(a, CBool) and isinstance(b, CBool) and op in ("==", "!="):
                r = sym.beq(a.b, b.b)
                return CBool(r if op == "==" else bnot(r))
            return CBool(icmp(op, self.to_int(a), self.to_int(b)))
        raise HarnessError(f"binary operator {op}")

    def load_index(self, base, idx):
        m = self.m
        if isinstance(base, FieldRef):
            idx = simp_int(idx)
            ts = m.tensors[base.tensor]
            if not isinstance(idx, int) or not (0 <= idx < ts.order):
                m.oblige(False, ("indices[] out of bounds", base.tensor))
            return LevelRef(base.tensor, idx)
        if isinstance(base, LevelRef):
            idx = simp_int(idx)
            ts = m.tensors[base.tensor]
            lv = ts.levels[base.level]
            if lv is None or not isinstance(idx, int) or not (0 <= idx < 2):
                m.oblige(False, ("indices[l][k] out of bounds", base.tensor))
            return lv[idx]
        if isinstance(base, Ptr):
            return m.load(Ptr(base.block, sym.iadd(base.off, idx)), ("C []",))
        raise HarnessError("index of non-pointer")

    def call(self, e, target_ctype):
        m = self.m
        name = e.name.name
        args = e.args.exprs if e.args else []
        if target_ctype is None or not target_ctype.endswith("*"):
            raise HarnessError("allocation result is not assigned to a pointer")
        elem = {"int*": "int", "double*": "float"}.get(target_ctype)
        if elem is None:
            raise HarnessError(f"allocation of {target_ctype}")
        unit = 4 if elem == "int" else 8

        def count(v):
            if isinstance(v, Bytes):
                if v.unit != unit:
                    raise HarnessError("sizeof does not match the element type of the target")
                return v.count
            raise HarnessError("allocation size is not sizeof(T) * n")

        if name == "malloc":
            return m.allocate(elem, count(self.ev(args[0])), ("malloc",))
        if name == "realloc":
            old = self.ev(args[0])
            return m.reallocate(old, elem, count(self.ev(args[1])), ("realloc",))
        raise HarnessError(f"call of {name}")

    # ---- assignment
    def target_ctype(self, lv):
        if isinstance(lv, c_ast.ID):
            return self.type_of_var(lv.name)
        if isinstance(lv, c_ast.ArrayRef):
            base = self.ev(lv.name)
            if isinstance(base, Ptr):
                return "double" if self.m.heap[base.block].elem == "float" else "int"
            if isinstance(base, LevelRef):
                return "int*"
            return None
        if isinstance(lv, c_ast.StructRef):
            return {"vals": "double*"}.get(lv.field.name)
        return None

    def assign(self, lv, value):
        m = self.m
        if isinstance(lv, c_ast.ID):
            sc = self.lookup(lv.name)
            sc[lv.name] = self.convert(value, self.type_of_var(lv.name))
            return
        if isinstance(lv, c_ast.ArrayRef):
            base = self.ev(lv.name)
            idx = self.to_int(self.ev(lv.subscript))
            if isinstance(base, Ptr):
                b = m.heap[base.block]
                v = self.convert(value, "double" if b.elem == "float" else "int")
                m.store(Ptr(base.block, sym.iadd(base.off, idx)), v, ("C store",))
                return
            if isinstance(base, LevelRef):
                idx = simp_int(idx)
                ts = m.tensors[base.tensor]
                lvv = ts.levels[base.level]
                if lvv is None or not isinstance(idx, int) or not (0 <= idx < 2):
                    m.oblige(False, ("store to indices[l][k] out of bounds", base.tensor))
                if not ts.is_output:
                    m.oblige(False, ("store into an input tensor's struct", base.tensor))
                if not isinstance(value, Ptr):
                    raise HarnessError("non-pointer stored to indices slot")
                lvv[idx] = value
                return
            raise HarnessError("store through non-pointer")
        if isinstance(lv, c_ast.StructRef):
            base = self.ev(lv.name)
            ts = m.tensors[base.name]
            if not ts.is_output:
                m.oblige(False, ("store into an input tensor's struct", base.name))
            if lv.field.name == "vals" and isinstance(value, Ptr):
                ts.vals = value
                return
            m.oblige(False, ("store to immutable struct field", base.name, lv.field.name))
        raise HarnessError("unsupported assignment target")

    # ---- statements
    def ex(self, s):
        m = self.m
        t = type(s)
        self.covered.add(id(s))
        if t is c_ast.Compound:
            self.scopes.append({})
            self.types.append({})
            try:
                for x in s.block_items or []:
                    self.ex(x)
            finally:
                self.scopes.pop()
                self.types.pop()
            return
        if t is c_ast.Decl:
            ct = ctype_of(s.type)
            v = None
            if s.init is not None:
                if isinstance(s.init, c_ast.FuncCall):
                    v = self.call(s.init, ct)
                else:
                    v = self.convert(self.ev(s.init), ct)
            self.declare(s.name, ct, v)
            return
        if t is c_ast.Assignment:
            if s.op == "=":
                if isinstance(s.rvalue, c_ast.FuncCall):
                    v = self.call(s.rvalue, self.target_ctype(s.lvalue))
                else:
                    v = self.ev(s.rvalue)
                self.assign(s.lvalue, v)
                return
            if s.op in ("+=", "-=", "*="):
                cur = self.ev(s.lvalue)
                rhs = self.ev(s.rvalue)
                op = s.op[0]
                if is_float(cur) or is_float(rhs):
                    a, b = self.convert(cur, "double"), self.convert(rhs, "double")
                    v = m.falg.add(a, b) if op == "+" else m.falg.sub(a, b) if op == "-" else m.falg.mul(a, b)
                elif isinstance(cur, Ptr):
                    raise HarnessError("compound assignment on pointer")
                else:
                    v = m.int_op(op, self.to_int(cur), self.to_int(rhs), ("C " + s.op,))
                self.assign(s.lvalue, v)
                return
            raise HarnessError(f"assignment operator {s.op}")
        if t is c_ast.UnaryOp:
            self.ev(s)
            return
        if t is c_ast.If:
            c = self.to_bool(self.ev(s.cond))
            if m.decide(c):
                self.ex(s.iftrue)
            elif s.iffalse is not None:
                self.ex(s.iffalse)
            return
        if t is c_ast.While:
            n = 0
            while True:
                c = self.to_bool(self.ev(s.cond))
                if not m.decide(c):
                    break
                n += 1
                m.stats.loop_iters += 1
                if n > m.max_loop_iter:
                    m.flush_obligations()
                    m.check()
                    raise Violation("unwind", ("C loop still running after", m.max_loop_iter), m.solver.model())
                self.ex(s.stmt)
            return
        if t is c_ast.Return:
            raise PathEnd(self.to_int(self.ev(s.expr)))
        if t is c_ast.EmptyStatement:
            return
        if t in (c_ast.BinaryOp, c_ast.ID, c_ast.Constant, c_ast.ArrayRef):
            self.ev(s)
            return
        raise HarnessError(f"unsupported C statement {t.__name__}")

    def run(self, fdef: c_ast.FuncDef, args: list[str]):
        self.scopes = [{}]
        self.types = [{}]
        params = fdef.decl.type.args.params if fdef.decl.type.args else []
        if len(params) != len(args):
            raise HarnessError("arity mismatch")
        for p, a in zip(params, args):
            ct = ctype_of(p.type)
            v = TRef(a) if isinstance(a, str) else a
            if ct == "bool" and not isinstance(v, CBool):
                v = CBool(v)
            self.declare(p.name, ct, v)
        try:
            self.ex(fdef.body)
        except PathEnd as pe:
            return pe.value
        self.m.oblige(False, ("function ended without return",))
