"""E4 — PyProxy: run real Python glue (TensorMethod.__call__, operator dispatch, ...) on z3-backed
proxy values with the replay-forking engine of E1.

``SymBool.__bool__`` asks the engine to decide; comparisons and arithmetic build terms; formatting
returns placeholders so that error messages never concretise; hashing / indexing concretise by a
solver *value fork* (every feasible value becomes a path)."""

from __future__ import annotations

import z3

from .kse import HarnessError, Infeasible, Machine
from .sym import simp_bool, simp_int, zi

ENGINE: Machine | None = None


def engine() -> Machine:
    if ENGINE is None:
        raise HarnessError("no active engine")
    return ENGINE


class SymBool:
    __slots__ = ("t",)

    def __init__(self, t):
        self.t = t

    def __bool__(self):
        return engine().decide(self.t)

    def __repr__(self):
        return "<sym bool>"

    def __invert__(self):
        return SymBool(z3.Not(self.t))


def _term(x):
    if isinstance(x, SymInt):
        return x.t
    if isinstance(x, bool):
        return None
    if isinstance(x, int):
        return z3.IntVal(x)
    return None


class SymInt:
    """A symbolic Python int."""

    __slots__ = ("t", "dom")

    def __init__(self, t, dom=None):
        self.t = t
        self.dom = dom  # (lo, hi) inclusive when the value may be concretised

    # comparisons
    def _cmp(self, other, op):
        o = _term(other)
        if o is None:
            return NotImplemented
        r = simp_bool(op(self.t, o))
        if isinstance(r, bool):
            return r
        return SymBool(r)

    def __eq__(self, other):
        r = self._cmp(other, lambda a, b: a == b)
        return False if r is NotImplemented else r

    def __ne__(self, other):
        r = self._cmp(other, lambda a, b: a != b)
        return True if r is NotImplemented else r

    def __lt__(self, other):
        return self._cmp(other, lambda a, b: a < b)

    def __le__(self, other):
        return self._cmp(other, lambda a, b: a <= b)

    def __gt__(self, other):
        return self._cmp(other, lambda a, b: a > b)

    def __ge__(self, other):
        return self._cmp(other, lambda a, b: a >= b)

    # arithmetic
    def _arith(self, other, op, kind=None):
        o = _term(other)
        if o is None:
            return NotImplemented
        r = simp_int(op(self.t, o))
        if isinstance(r, int):
            return r
        # interval of the result, so that it can still be concretised later
        dom = None
        od = (other, other) if isinstance(other, int) else getattr(other, "dom", None)
        if self.dom is not None and od is not None and kind is not None:
            a, b = self.dom
            c, d = od
            if kind == "+":
                dom = (a + c, b + d)
            elif kind == "-":
                dom = (a - d, b - c)
            elif kind == "r-":
                dom = (c - b, d - a)
            else:
                ps = [a * c, a * d, b * c, b * d]
                dom = (min(ps), max(ps))
            if dom[1] - dom[0] > 64:
                dom = None
        return SymInt(r, dom)

    def __add__(self, o):
        return self._arith(o, lambda a, b: a + b, "+")

    __radd__ = __add__

    def __sub__(self, o):
        return self._arith(o, lambda a, b: a - b, "-")

    def __rsub__(self, o):
        return self._arith(o, lambda a, b: b - a, "r-")

    def __mul__(self, o):
        return self._arith(o, lambda a, b: a * b, "*")

    __rmul__ = __mul__

    def __neg__(self):
        return SymInt(-self.t)

    # never concretise for messages
    def __format__(self, spec):
        return "<sym>"

    def __str__(self):
        return "<sym>"

    def __repr__(self):
        return "<sym int>"

    # value fork
    def concretise(self) -> int:
        if isinstance(simp_int(self.t), int):
            return simp_int(self.t)
        if self.dom is None:
            raise HarnessError("concretisation of an unbounded symbolic int")
        return value_fork(self.t, range(self.dom[0], self.dom[1] + 1))

    def __index__(self):
        return self.concretise()

    def __int__(self):
        return self.concretise()

    def __hash__(self):
        return hash(self.concretise())


def value_fork(term, domain) -> int:
    """On-demand concretisation: the engine forks on term == v for v in a fixed finite domain
    (deterministic order, so that replayed prefixes stay aligned)."""
    m = engine()
    term = simp_int(term)
    if isinstance(term, int):
        return term
    for v in domain:
        if m.decide(term == v):
            return v
    raise Infeasible()


class SymEnum:
    """A symbolic member of a finite Python enum (compares by identity/equality with members)."""

    __slots__ = ("t", "members")

    def __init__(self, t, members):
        self.t = t
        self.members = list(members)

    def _eq(self, other):
        if isinstance(other, SymEnum):
            return SymBool(self.t == other.t)
        if other in self.members:
            r = simp_bool(self.t == self.members.index(other))
            return r if isinstance(r, bool) else SymBool(r)
        return False

    def __eq__(self, other):
        return self._eq(other)

    def __ne__(self, other):
        r = self._eq(other)
        if isinstance(r, bool):
            return not r
        return SymBool(z3.Not(r.t))

    def __hash__(self):
        return hash(self.concretise())

    def concretise(self):
        return self.members[value_fork(self.t, range(len(self.members)))]

    def __getattr__(self, name):
        # attribute of the enum member (e.g. Mode.name, Mode.c_int): concretise
        return getattr(self.concretise(), name)

    def __format__(self, spec):
        return "<sym>"

    def __repr__(self):
        return "<sym enum>"


class activate:
    def __init__(self, m: Machine):
        self.m = m

    def __enter__(self):
        global ENGINE
        self.prev = ENGINE
        ENGINE = self.m
        return self.m

    def __exit__(self, *a):
        global ENGINE
        ENGINE = self.prev
        return False


def explore(make_solver_base, body, max_paths=5000):
    """Replay-forking exploration of ``body(m)``.  ``make_solver_base(m)`` adds the base assumptions.
    Returns stats dict; ``body`` performs its own end-of-path assertions and may raise."""
    from .kse import Stats

    solver = z3.Solver()
    solver.set("timeout", 30000)
    work = [[]]
    stats = Stats()
    while work:
        if stats.paths >= max_paths:
            raise HarnessError("path budget exhausted")
        prefix = work.pop()
        m = Machine(prefix, solver=solver)
        solver.push()
        try:
            with activate(m):
                make_solver_base(m)
                body(m)
            stats.paths += 1
        except Infeasible:
            stats.infeasible += 1
        finally:
            solver.pop()
            stats.decisions += m.stats.decisions
            stats.queries += m.stats.queries
            stats.solver_s += m.stats.solver_s
        work.extend(m.pending)
    return stats


class SymReal:
    """A symbolic Python float (registered as numbers.Real).  Comparisons build terms and fork;
    ``float()`` concretises by a deterministic value fork over the candidate list extended with
    every constant this value has been compared with on the current path."""

    def __init__(self, t, candidates=(0, 1, -1, 2.5, 0.5)):
        from fractions import Fraction

        self.t = t
        self.candidates = [Fraction(c) for c in candidates]

    def _other(self, o):
        from fractions import Fraction

        if isinstance(o, SymReal):
            return o.t
        if isinstance(o, bool):
            o = int(o)
        if isinstance(o, (int, float)):
            f = Fraction(o)
            for c in (f, f + 1, f - 1):
                if c not in self.candidates:
                    self.candidates.append(c)
            return z3.RealVal(str(f))
        return None

    def _cmp(self, o, op):
        t = self._other(o)
        if t is None:
            return NotImplemented
        r = simp_bool(op(self.t, t))
        return r if isinstance(r, bool) else SymBool(r)

    def __eq__(self, o):
        r = self._cmp(o, lambda a, b: a == b)
        return False if r is NotImplemented else r

    def __ne__(self, o):
        r = self._cmp(o, lambda a, b: a != b)
        return True if r is NotImplemented else r

    def __lt__(self, o):
        return self._cmp(o, lambda a, b: a < b)

    def __le__(self, o):
        return self._cmp(o, lambda a, b: a <= b)

    def __gt__(self, o):
        return self._cmp(o, lambda a, b: a > b)

    def __ge__(self, o):
        return self._cmp(o, lambda a, b: a >= b)

    def __hash__(self):
        return hash(self.__float__())

    def __float__(self):
        m = engine()
        for c in list(self.candidates):
            if m.decide(self.t == z3.RealVal(str(c))):
                self.chosen = float(c)
                return float(c)
        raise Infeasible()

    def __bool__(self):
        return bool(self != 0)

    def __neg__(self):
        return SymReal(-self.t, [-c for c in self.candidates])

    def __format__(self, spec):
        return "<sym>"

    def __repr__(self):
        return "<sym real>"


import numbers as _numbers  # noqa: E402

_numbers.Real.register(SymReal)
