"""C11 — tensor operators agree with element-wise and matrix arithmetic.

Stage 1 (E4): the real operator dispatch (evaluate_binary_operator /
evaluate_matrix_multiplication_operator) runs on proxy tensors with symbolic dimensions;
``evaluate_tensora`` is a recorder.  z3 decides that the documented ValueError is raised iff the
shapes are incompatible, that operands are bound left->left / right->right, and (natural
orderings) that the output format obeys the documented rule.
Stage 2 (E1): the recorded request is compiled by the real compiler and executed symbolically
against a specification derived from the operator itself."""

from __future__ import annotations

import itertools
import random
import time

import z3
from tensora import Tensor
from tensora.format import Format, Mode, parse_format

from .. import common, corpus, ksweep, pyproxy
from ..kse import HarnessError
from ..pyproxy import SymInt
from ..sym import INT_MAX
from . import keval


class DimTensor(Tensor):
    """Concrete format, symbolic dimension sizes."""

    def __init__(self, name, fmt: Format):
        self.name = name
        self.fmt = fmt
        self.cffi_tensor = ("cffi", name)

    def dim_t(self, k):
        return z3.Int(f"{self.name}_dim{k}")

    def base(self, m):
        for k in range(self.fmt.order):
            m.assume(self.dim_t(k) >= 0)
            m.assume(self.dim_t(k) <= INT_MAX)

    @property
    def order(self):
        return self.fmt.order

    @property
    def dimensions(self):
        return tuple(SymInt(self.dim_t(k)) for k in range(self.fmt.order))

    @property
    def modes(self):
        return self.fmt.modes

    @property
    def mode_ordering(self):
        return self.fmt.ordering

    @property
    def format(self):
        return self.fmt


class Recorded(Exception):
    pass


def expected(op, lf, rf, lscalar, rscalar):
    """(compatibility condition builder, specification text, documented natural-order format)"""
    def idx(n):
        return ",".join(f"i{k}" for k in range(n))

    if op in "+-*":
        if lscalar:
            n = rf.order
            spec = f"output({idx(n)}) = left() {op} right({idx(n)})"
            nat = rf.deparse() if op == "*" else "d" * n
            return None, spec, nat if _natural(rf) else None
        if rscalar:
            n = lf.order
            spec = f"output({idx(n)}) = left({idx(n)}) {op} right()"
            nat = lf.deparse() if op == "*" else "d" * n
            return None, spec, nat if _natural(lf) else None
        if lf.order != rf.order:
            return "never", None, None
        n = lf.order
        spec = f"output({idx(n)}) = left({idx(n)}) {op} right({idx(n)})"
        nat = None
        if _natural(lf) and _natural(rf):
            if op == "*":
                nat = "".join("d" if a == Mode.dense and b == Mode.dense else "s"
                              for a, b in zip(lf.modes, rf.modes))
            else:
                nat = "".join("d" if a == Mode.dense or b == Mode.dense else "s"
                              for a, b in zip(lf.modes, rf.modes))
        return [(k, k) for k in range(n)], spec, nat
    # matmul
    lo, ro = lf.order, rf.order
    if (lo, ro) == (1, 1):
        return [(0, 0)], "output() = left(i) * right(i)", ""
    if (lo, ro) == (2, 1):
        nat = lf.modes[0].character if _natural(lf) else None
        return [(1, 0)], "output(i) = left(i,j) * right(j)", nat
    if (lo, ro) == (1, 2):
        nat = rf.modes[1].character if _natural(rf) else None
        return [(0, 0)], "output(j) = left(i) * right(i,j)", nat
    if (lo, ro) == (2, 2):
        nat = lf.modes[0].character + rf.modes[1].character if _natural(lf) and _natural(rf) else None
        return [(1, 0)], "output(i,k) = left(i,j) * right(j,k)", nat
    return "never", None, None


def _natural(f: Format):
    return f.ordering == tuple(range(f.order))


def stage1(op, lf, rf, lscalar=False, rscalar=False):
    """Returns (problems, recorded request or None, stats)."""
    import tensora.compile as tcomp
    import tensora.tensor as tmod

    # a scalar operand is a symbolic float: comparisons against it fork, float() concretises
    left = pyproxy.SymReal(z3.Real("left_scalar")) if lscalar else DimTensor("left", lf)
    right = pyproxy.SymReal(z3.Real("right_scalar")) if rscalar else DimTensor("right", rf)
    inconclusive = []
    kept_requests = {}
    compat, spec, nat = expected(op, lf, rf, lscalar, rscalar)
    problems = []
    rec = {}
    seen = {"raised": 0, "recorded": 0}

    def recorder(assignment, output_format, **inputs):
        rec["call"] = (assignment, output_format, inputs)
        raise Recorded()

    def base(m):
        for t in (left, right):
            if isinstance(t, DimTensor):
                t.base(m)

    def compat_cond():
        if compat is None:
            return z3.BoolVal(True)
        if compat == "never":
            return z3.BoolVal(False)
        return z3.And(*[left.dim_t(a) == right.dim_t(b) for a, b in compat]) if compat else z3.BoolVal(True)

    def body(m):
        rec.clear()
        try:
            if op == "@":
                r = tmod.evaluate_matrix_multiplication_operator(left, right)
            else:
                r = tmod.evaluate_binary_operator(left, right, op)
            if r is NotImplemented:
                problems.append("returned NotImplemented")
            else:
                # a result without a kernel request (a shortcut): judged concretely below
                inconclusive.append(_scalar_value(left, right))
        except Recorded:
            seen["recorded"] += 1
            # must only happen when shapes are compatible
            if m.check(z3.Not(compat_cond())) != z3.unsat:
                problems.append("kernel requested although the shapes are incompatible")
            a, of, inputs = rec["call"]
            if set(inputs) != {"left", "right"}:
                problems.append(f"unexpected operand names {sorted(inputs)}")
            else:
                for nm, val, isscalar in (("left", left, lscalar), ("right", right, rscalar)):
                    got = inputs[nm]
                    if isscalar:
                        if not (isinstance(got, Tensor) and got.order == 0 and float(got) == getattr(val, "chosen", None)):
                            problems.append(f"scalar operand {nm} not passed as an order-0 tensor of the same value")
                    elif got is not val:
                        problems.append(f"operand {nm} bound to the wrong tensor")
            if nat is not None and of != nat:
                problems.append(f"output format {of!r} differs from the documented rule {nat!r}")
            kept_requests["keep"] = (a, of)
        except ValueError:
            seen["raised"] += 1
            if m.check(compat_cond()) != z3.unsat:
                problems.append("ValueError although the shapes are compatible")
        except (Recorded, pyproxy.Infeasible, HarnessError):
            raise
        except Exception:  # noqa: BLE001 - a shortcut that touched the proxy's (absent) data
            if lscalar or rscalar:
                inconclusive.append(_scalar_value(left, right))
            else:
                raise

    real = tcomp.evaluate_tensora
    tcomp.evaluate_tensora = recorder
    try:
        stats = pyproxy.explore(base, body)
    finally:
        tcomp.evaluate_tensora = real
    for sv in inconclusive:
        if sv is None:
            problems.append("operator returned without requesting a kernel")
            continue
        bad = concrete_scalar_check(op, lf if not lscalar else rf, sv, lscalar)
        if bad:
            problems.append(bad)
    return problems, kept_requests.get("keep"), spec, stats, seen


def _scalar_value(left, right):
    for x in (left, right):
        if isinstance(x, pyproxy.SymReal):
            m = pyproxy.engine()
            if m.check() != z3.sat:
                return None
            v = m.solver.model().eval(x.t, model_completion=True)
            return float(v.numerator_as_long()) / float(v.denominator_as_long())
    return None


def concrete_scalar_check(op, fmt, scalar, scalar_on_left):
    """The operator took a path that requests no kernel for this scalar: compare its result on a
    real tensor with element-wise arithmetic."""
    import itertools

    dims = tuple([2, 3, 2][: fmt.order])
    data = {}
    for k, c in enumerate(itertools.product(*[range(d) for d in dims])):
        if k % 2 == 0:
            data[c] = float(k + 1)
    t = Tensor.from_dok(data, dimensions=dims, format=fmt)
    import operator as _op

    f = {"+": _op.add, "-": _op.sub, "*": _op.mul}[op]
    try:
        got = f(scalar, t) if scalar_on_left else f(t, scalar)
    except Exception as e:  # noqa: BLE001
        return f"operator with scalar {scalar} raised {type(e).__name__}"
    gd = dict(got.items())
    for c in itertools.product(*[range(d) for d in dims]):
        a = data.get(c, 0.0)
        want = f(scalar, a) if scalar_on_left else f(a, scalar)
        if gd.get(c, 0.0) != want:
            side = "left" if scalar_on_left else "right"
            return f"scalar {scalar} on the {side} of {op}: value at {c} is {gd.get(c, 0.0)}, expected {want}"
    if tuple(got.dimensions) != dims:
        return f"scalar {scalar} {op}: wrong dimensions {got.dimensions}"
    return None


def fmt_pool(order, rng, k):
    allf = corpus.all_formats(order)
    if len(allf) <= k:
        return allf
    nat = corpus.natural_formats(order)
    rest = [f for f in allf if f not in nat]
    return nat + rng.sample(rest, max(0, k - len(nat)))


def cases(tier, seed):
    rng = random.Random(77 + seed)
    out = []
    max_order = 2 if tier == "quick" else 3
    for n in range(max_order + 1):
        pool = fmt_pool(n, rng, 6 if tier == "quick" else (8 if n < 3 else 10))
        pairs = list(itertools.product(pool, pool))
        if tier == "quick" and len(pairs) > 10:
            # operands stored in different orderings must be among the pairs
            nat = [f for f in pool if not any(ch.isdigit() for ch in f)]
            perm = [f for f in pool if any(ch.isdigit() for ch in f)]
            forced = [(a, b) for a in perm for b in nat[:2]] + [(a, b) for a in nat[:2] for b in perm] + \
                     [(a, b) for a in perm for b in perm]
            rest = [p for p in pairs if p not in forced]
            pairs = forced + rng.sample(rest, max(0, 10 - len(forced)) + 4)
        for lf, rf in pairs:
            for op in "+-*":
                out.append((op, lf, rf, False, False))
        for f in pool:
            for op in "+-*":
                out.append((op, f, f, False, True))
                out.append((op, f, f, True, False))
    # mismatched orders
    out.append(("+", "d", "dd", False, False))
    out.append(("*", "ss", "s", False, False))
    # matmul
    p1 = fmt_pool(1, rng, 2)
    p2 = fmt_pool(2, rng, 8 if tier != "quick" else 5)
    for lf, rf in list(itertools.product(p1, p1)) + list(itertools.product(p2, p1)) + \
            list(itertools.product(p1, p2)):
        out.append(("@", lf, rf, False, False))
    mm = list(itertools.product(p2, p2))
    if tier == "quick":
        mm = rng.sample(mm, 8)
    for lf, rf in mm:
        out.append(("@", lf, rf, False, False))
    out.append(("@", "", "d", False, False))
    out.append(("@", "ddd", "d", False, False))
    return out


def run(tier):
    t0 = time.time()
    seed = common.seed()
    rep = common.Reporter("C11")
    cs = cases(tier, seed)
    stage2 = []
    tot = {"paths": 0, "queries": 0, "solver_s": 0.0, "decisions": 0}
    samples = []
    n_rec = n_raise = 0
    for op, lf, rf, ls, rs in cs:
        lfm, rfm = parse_format(lf).unwrap(), parse_format(rf).unwrap()
        try:
            problems, kept, spec, stats, seen = stage1(op, lfm, rfm, ls, rs)
        except HarnessError as e:
            rep.harness_error(f"stage1 {op} {lf} {rf}: {e}")
            continue
        tot["paths"] += stats.paths
        tot["queries"] += stats.queries
        tot["solver_s"] += stats.solver_s
        tot["decisions"] += stats.decisions
        n_rec += seen["recorded"]
        n_raise += seen["raised"]
        name = f"{'scalar' if ls else lf or 'scalar-tensor'} {op} {'scalar' if rs else rf or 'scalar-tensor'}"
        for p in problems:
            rep.violation({"name": name, "kind": "operator-dispatch", "problem": p},
                          {"property": "C11", "stage": 1, "operator": op, "left": lf, "right": rf,
                           "left_scalar": ls, "right_scalar": rs, "problem": p})
        if kept:
            a, of = kept
            fmts = {"output": of, "left": "" if ls else lf, "right": "" if rs else rf}
            stage2.append((a, fmts, spec, name))
        if len(samples) < 8:
            samples.append({"operator": op, "left": lf, "right": rf, "left_scalar": ls, "right_scalar": rs,
                            "paths": stats.paths, "recorded": kept, "spec": spec})
    # stage 2: compile the recorded requests and check them against the operator's own meaning
    from ..request import Request

    reqs = []
    seen_keys = set()
    spec_of = {}
    for a, fmts, spec, name in stage2:
        r = Request.make(a, fmts)
        if r.key() in seen_keys:
            continue
        seen_keys.add(r.key())
        reqs.append(r)
        spec_of[r.key()] = spec
    D, N = (2, 2) if tier == "quick" else (3, 2)
    tasks = ksweep.build_tasks(reqs, D, N, ["value", "canon"], "corners", 20000, 600)
    for t in tasks:
        t["spec"] = spec_of[Request.make(t["assignment"], t["formats"]).key()]
    import os as _os

    wall_budget = None if tier == "quick" else int(_os.environ.get("VERIF_THOROUGH_BUDGET_S", "2400"))
    results = ksweep.run_tasks(tasks, wall_budget=wall_budget)
    agg = {"paths": 0, "queries": 0, "solver_s": 0.0, "decisions": 0}
    over_budget = []
    refused = 0
    gen = set()
    for r in results:
        key = r["request"]["assignment"] + " | " + ",".join(f"{k}:{v}" for k, v in r["request"]["formats"].items())
        for k in agg:
            agg[k] += r.get("stats", {}).get(k, 0)
        if r["status"] == "refused":
            refused += 1
            continue
        gen.add(key)
        if r["status"] == "harness-error":
            rep.harness_error(f"{key}: {r.get('error', '')[:300]}")
        elif r["status"] == "budget":
            if tier == "quick":
                rep.harness_error(f"{key}: budget exceeded")
            else:
                over_budget.append({"request": key, "dimvec": r["dimvec"]})
        elif r["status"] == "violation":
            conf = keval.confirm(r, ["value", "canon"])
            doc = {"property": "C11", "stage": 2, "request": r["request"], "spec": r.get("spec"),
                   "violation": r["violation"], "confirmation": conf}
            if conf["confirmed"]:
                rep.violation({"name": key, "kind": r["violation"]["kind"], "request": key}, doc)
            else:
                rep.harness_error(f"counterexample for {key} did not reproduce")
    if n_rec == 0 or n_raise == 0:
        rep.harness_error("vacuous: stage 1 never recorded a request or never raised")
    coverage = {
        "states": tot["paths"] + agg["paths"], "transitions": tot["decisions"] + agg["decisions"],
        "traces_validated_against_impl": 0, "samples": samples,
        "operator_cases": len(cs), "stage1_paths": tot["paths"], "stage1_recorded": n_rec, "stage1_refused": n_raise,
        "stage2_requests": len(reqs), "stage2_tasks": len(tasks), "stage2_tasks_completed": len(results), "stage2_generated": len(gen), "stage2_no_kernel_refusals": refused,
        "stage2_paths": agg["paths"], "stage2_tasks_over_budget": over_budget[:40], "queries_discharged": tot["queries"] + agg["queries"],
        "solver_s": round(tot["solver_s"] + agg["solver_s"], 2),
        "bounds": {"orders": "0..2 (quick) / 0..3 (thorough); @: 1..2", "dimension sizes stage 1": "0..2^31-1 symbolic",
                   "stage 2": f"dense extents <= {D}, <= {N} stored entries per compressed level"},
        "functions_encoded": ["tensora.tensor.evaluate_binary_operator", "tensora.tensor.evaluate_matrix_multiplication_operator",
                              "generate_module_tensora output for every recorded request"],
        "stubs": ["DimTensor(Tensor) with symbolic dimensions", "evaluate_tensora replaced by a recorder in stage 1"],
    }
    common.write_evidence("C11", tier, "model_checking", coverage,
                          keval.ASSUMPTIONS + ["operand formats enumerated (sampled pairs in quick, rotating with VERIF_SEED)"],
                          time.time() - t0, len(rep.violations))
    print(f"C11 {tier}: operator cases={len(cs)} stage1 paths={tot['paths']} stage2 requests={len(reqs)} generated={len(gen)} "
          f"refused={refused} paths={agg['paths']} wall={time.time() - t0:.0f}s", flush=True)
    return rep.exit_code()
