from __future__ import annotations

import json


def _keval(pid):
    def run(tier):
        from . import keval

        if pid == "C03":
            return keval.run(pid, tier, extra=keval.assemble_support_extra(tier))
        return keval.run(pid, tier)

    return run


def _c04(tier):
    from . import kprogs

    return kprogs.run_c04(tier)


def _c05(tier):
    from . import kprogs

    return kprogs.run_c05(tier)


def _c16(tier):
    from . import kprogs

    return kprogs.run_c16(tier)


def _c07(tier):
    from . import c07

    return c07.run(tier)


def _c10(tier):
    from . import c10

    return c10.run(tier)


def _c11(tier):
    from . import c11

    return c11.run(tier)


def _c12(tier):
    from . import c12

    return c12.run(tier)


def _c06(tier):
    from . import c06

    return c06.run(tier)


def _c09(tier):
    from . import c09

    return c09.run(tier)


CHECKS = {
    "C01": _keval("C01"),
    "C02": _keval("C02"),
    "C03": _keval("C03"),
    "C04": _c04,
    "C05": _c05,
    "C06": _c06,
    "C07": _c07,
    "C09": _c09,
    "C10": _c10,
    "C11": _c11,
    "C12": _c12,
    "C16": _c16,
}


def replay(pid, path):
    with open(path) as f:
        doc = json.load(f)
    from . import keval

    if pid in ("C01", "C02", "C03", "C05"):
        rec = {"request": doc["request"], "violation": doc["violation"]}
        conf = keval.confirm(rec, keval.PROPS.get(pid, {"families": ["value", "canon", "support"]})["families"])
        print(json.dumps(conf, indent=1, default=str))
        return 1 if conf["confirmed"] else 0
    print("no replay for", pid)
    return 2
