from __future__ import annotations

import json


def _keval(pid):
    def run(tier):
        from . import keval

        if pid == "C03":
            return keval.run(pid, tier, extra=keval.assemble_support_extra(tier))
        return keval.run(pid, tier)

    return run


def _c04(tier):
    from . import kprogs

    return kprogs.run_c04(tier)


def _c05(tier):
    from . import kprogs

    return kprogs.run_c05(tier)


def _c16(tier):
    from . import kprogs

    return kprogs.run_c16(tier)


def _c07(tier):
    from . import c07

    return c07.run(tier)


def _c10(tier):
    from . import c10

    return c10.run(tier)


def _c11(tier):
    from . import c11

    return c11.run(tier)


def _c12(tier):
    from . import c12

    return c12.run(tier)


def _c06(tier):
    from . import c06

    return c06.run(tier)


def _c09(tier):
    from . import c09

    return c09.run(tier)


CHECKS = {
    "C01": _keval("C01"),
    "C02": _keval("C02"),
    "C03": _keval("C03"),
    "C04": _c04,
    "C05": _c05,
    "C06": _c06,
    "C07": _c07,
    "C09": _c09,
    "C10": _c10,
    "C11": _c11,
    "C12": _c12,
    "C16": _c16,
}


def replay(pid, path):
    """Re-run the confirmation recorded in a replay file against the current /repo tree.
    Exit 1 when the violation reproduces, 0 when it does not, 2 when there is no automatic replay."""
    with open(path) as f:
        doc = json.load(f)
    from . import keval

    if pid in ("C01", "C02", "C03") and "violation" in doc and "request" in doc and doc.get("part") != "assemble kernel":
        rec = {"request": doc["request"], "violation": doc["violation"], "dimvec": doc.get("dimvec", {}),
               "symbolic_dimension": any(v == "sym" for v in (doc.get("dimvec") or {}).values())}
        conf = keval.confirm(rec, keval.PROPS.get(pid, {"families": ["value", "canon", "support"]})["families"])
    elif pid in ("C04", "C05") and "violation" in doc and "request" in doc:
        from . import kprogs

        rec = {"request": doc["request"], "violation": doc["violation"], "program": doc.get("program"),
               "mode": "c04" if pid == "C04" else "c05"}
        conf = kprogs.confirm(rec, None)
    elif pid == "C16" and "violation" in doc:
        from . import kprogs

        conf = kprogs.confirm_c16({"request": doc["request"], "violation": doc["violation"]}, None)
    elif pid == "C06" and doc.get("part") == "1-expression-trees":
        from . import c06

        conf = c06.confirm_tree_finding(doc)
    elif pid == "C06" and doc.get("part") == "1-statement-trees":
        from . import c06

        rp = c06.replay_statement(doc)
        conf = {"confirmed": bool(rp.get("differs")), **rp}
    elif pid == "C06" and doc.get("part") == "2-kernels":
        from . import c06

        conf = c06.confirm_kernel({"request": doc["request"], "violation": doc["violation"], "program": doc.get("program")}, None)
    elif pid == "C07" and doc.get("part") == "b-expression-trees":
        from . import c07

        t, t2 = c07._parse_tree(doc["tree"]), c07._parse_tree(doc["optimised"])
        rp = c07.replay_expr_c(t, t2, doc.get("env", {})) if c07.uses_arrays(t) else c07.replay_expr_llvm(t, t2, doc.get("env", {}))
        conf = {"confirmed": bool(rp.get("differs")), **rp}
    elif pid == "C07" and "violation" in doc and "request" in doc:
        from . import c07

        conf = c07.confirm_kernel({"request": doc["request"], "violation": doc["violation"], "program": doc.get("program")}, None)
    elif pid == "C09" and doc.get("part") == "writer" and "coords" in doc:
        from . import c09

        conf = c09.replay_writer(doc)
    elif pid == "C09" and doc.get("part") == "reader" and doc.get("structure"):
        from tensora.format import parse_format

        from . import c09

        st = doc["structure"]
        n_vals = 1
        rp = c09.replay_reader(parse_format(doc["format"]).unwrap(), st["dims"], st["indices"],
                               [float(k + 1) for k in range(64)][: _count_vals(doc["format"], st)])
        conf = {"confirmed": bool(rp.get("problems")), **rp}
        del n_vals
    else:
        print(json.dumps(doc, indent=1, default=str)[:4000])
        print("no automatic replay for this record; the file above holds the counterexample and how it was confirmed")
        return 2
    print(json.dumps(conf, indent=1, default=str)[:4000])
    return 1 if conf.get("confirmed") else 0


def _count_vals(fmt_text, st):
    from tensora.format import Mode, parse_format

    fmt = parse_format(fmt_text).unwrap()
    n = 1
    for l, mode in enumerate(fmt.modes):
        if mode == Mode.dense:
            n *= st["dims"][fmt.ordering[l]]
        else:
            n = st["indices"][l][0][n]
    return n
