"""C12 — assignment and format text round-trips and means what arithmetic says.

(1) literal / format spellings: regular-language inclusion L(deparse output) in L(parser input),
    decided by z3's sequence theory on the regexes read from the live parser objects;
(2) meaning of the parse tree of every sentence up to 4 operands vs. Python's own reading of the
    same text (leaf values symbolic Reals);
(3) meaning of deparse(T) for every tree T up to a bounded depth, and parse(deparse(T)) == T.
"""

from __future__ import annotations

import ast as pyast
import itertools
import multiprocessing as mp
import os
import random
import re
import time

import z3
from returns.result import Failure, Success

from .. import common, rex
from ..kse import HarnessError


# ------------------------------------------------------------------ (1) spellings

FLOAT_REPR_MODEL = r"inf|[0-9]+\.[0-9]+|[0-9](\.[0-9]+)?e[+-][0-9][0-9]+"
INT_REPR_MODEL = r"0|[1-9][0-9]*"


def live_patterns():
    from tensora.expression._parser import TensorExpressionParsers as P
    from tensora.format._parser import FormatParsers as F

    def regex_of(parser):
        # a parsita RegexParser, possibly wrapped in conversion parsers (`reg(...) > f`)
        for _ in range(6):
            pat = getattr(parser, "pattern", None)
            if pat is not None and hasattr(pat, "pattern"):
                return pat.pattern
            if not hasattr(parser, "parser"):
                break
            parser = parser.parser
        raise HarnessError(f"cannot find the regular expression of {parser!r}")

    fp = regex_of(P.floating_point)
    integer = regex_of(P.integer)
    name = regex_of(P.name)
    fint = regex_of(F.integer)
    return {"floating_point": fp, "integer": integer, "name": name, "format_integer": fint}


def validate_repr_model():
    """The regular model of str(float) is validated against CPython on boundary values."""
    import struct

    vals = [0.0, 1.0, 0.5, 1.5, 1e16, 9999999999999998.0, 1e15, 123456789012345680.0, 1e-4, 9.9e-5, 1e-5,
            5e-324, 1.7976931348623157e308, 2.2250738585072014e-308, 0.1, 1 / 3, 1e22, 1e23, 1e100, 12345.678]
    rng = random.Random(5)
    for _ in range(3000):
        bits = rng.getrandbits(63)
        v = struct.unpack("<d", struct.pack("<Q", bits))[0]
        if v == v and v != float("inf"):
            vals.append(v)
    vals.append(float("inf"))
    bad = [v for v in vals if re.fullmatch(FLOAT_REPR_MODEL, str(v)) is None]
    return len(vals), bad


def spellings(rep):
    pats = live_patterns()
    number_in = rex.union(rex.to_z3(pats["floating_point"]), rex.to_z3(pats["integer"]))
    queries = 0
    out = {"patterns": pats, "counterexamples": []}
    n_vals, bad = validate_repr_model()
    out["repr_model_validated_on"] = n_vals
    if bad:
        rep.harness_error(f"str(float) model does not cover {bad[:3]}")
    # the translator itself is validated against Python's re on sample strings
    for pat in (pats["floating_point"], pats["integer"], pats["name"]):
        r = rex.to_z3(pat)
        for text in ["0", "00", "1.5", "1e5", "1.5e-7", "1.", ".5", "1e", "inf", "a1", "A", "1a", "", "1E+5", "12.50e+01"]:
            s = z3.Solver()
            s.add(z3.InRe(z3.StringVal(text), r))
            got = s.check() == z3.sat
            queries += 1
            if got != rex.python_matches(pat, text):
                rep.harness_error(f"regex translation disagrees with re on {pat!r} / {text!r}")
    for label, model in (("float", FLOAT_REPR_MODEL), ("int", INT_REPR_MODEL)):
        sub = rex.to_z3(model)
        exclude = []
        while len(exclude) < 5:
            w = rex.find_not_included(sub, number_in, exclude)
            queries += 1
            if w is None:
                break
            exclude.append(w)
            replay = replay_literal(w)
            out["counterexamples"].append({"kind": label, "spelling": w, "replay": replay})
            if replay["reproduced"]:
                rep.violation({"name": f"literal {w}", "kind": "literal-does-not-reparse", "spelling": w},
                              {"property": "C12", "part": 1, "spelling": w, **replay})
            else:
                rep.harness_error(f"spelling {w!r} is outside the parser's language but no input reproduces it")
    # format orderings: str(int) of an ordering entry must be read back by the format grammar's integer
    w = rex.find_not_included(rex.to_z3(INT_REPR_MODEL), rex.to_z3(pats["format_integer"]))
    queries += 1
    if w is not None:
        rep.violation({"name": f"format integer {w}", "kind": "format-integer-does-not-reparse", "spelling": w},
                      {"property": "C12", "part": 1, "spelling": w})
    # The inclusion above is a statement about regular *languages*; the parser applies its regexes by
    # prefix matching with ordered alternation.  So every class of spellings is also replayed on the
    # real parser: strings drawn by the solver from each alternative of the output model (several
    # lengths each) must be read back as one literal with the same value.
    out["literal_replays"] = replay_spellings(rep, number_in)
    out["queries"] = queries
    return out


SPELLING_CLASSES = {
    "decimal": r"[0-9]+\.[0-9]+",
    "exponent": r"[0-9]e[+-][0-9][0-9]+",
    "mantissa-exponent": r"[0-9]\.[0-9]+e[+-][0-9][0-9]+",
    "integer": r"0|[1-9][0-9]*",
}


def replay_spellings(rep, number_in, per_class=8):
    from tensora.expression import ast as s_ast
    from tensora.expression import parse_assignment

    n = 0
    for label, pat in SPELLING_CLASSES.items():
        r = rex.to_z3(pat)
        s = z3.String("w")
        sv = z3.Solver()
        sv.set("timeout", 20000)
        sv.add(z3.InRe(s, r))
        seen = []
        for k in range(per_class):
            sv.push()
            sv.add(z3.Length(s) >= 3 + 2 * (k % 4) if label != "integer" else z3.Length(s) >= 1 + k)
            for w in seen:
                sv.add(s != z3.StringVal(w))
            res = sv.check()
            if res != z3.sat:
                sv.pop()
                continue
            w = sv.model()[s].as_string()
            sv.pop()
            seen.append(w)
            n += 1
            text = f"A(i) = {w} * B(i)"
            p = parse_assignment(text)
            ok = isinstance(p, Success)
            if ok:
                lit = p.unwrap().expression.left
                want = s_ast.Integer(int(w)) if label == "integer" else s_ast.Float(float(w))
                ok = lit == want
            if not ok:
                rep.violation({"name": f"literal {w}", "kind": "literal-does-not-reparse", "spelling": w},
                              {"property": "C12", "part": 1, "spelling": w, "class": label, "text": text,
                               "result": repr(p)[:300]})
    # the *input* side: every shape of number the live grammar accepts (mantissa with/without a fraction x no
    # exponent / e / E x exponent sign) - strings drawn by the solver from L(live regex) /\ L(shape) must be
    # parsed, without raising, to the literal Python itself reads
    for mant_label, mant in (("int", r"[0-9]+"), ("frac", r"[0-9]+\.[0-9]+")):
        for exp_label, exp in (("", ""), ("e", "e"), ("E", "E")):
            for sign_label, sign in ((("", ""),) if not exp else (("", ""), ("+", r"\+"), ("-", "-"))):
                shape = mant + (exp + sign + r"[0-9]+" if exp else "")
                sv = z3.Solver()
                sv.set("timeout", 20000)
                w_ = z3.String("w")
                sv.add(z3.InRe(w_, number_in), z3.InRe(w_, rex.to_z3(shape)))
                seen = []
                for k in range(3):
                    sv.push()
                    sv.add(z3.Length(w_) >= len(mant_label) + 2 * k)
                    for w in seen:
                        sv.add(w_ != z3.StringVal(w))
                    res = sv.check()
                    if res != z3.sat:
                        sv.pop()
                        break  # the live grammar has no spelling of this shape (or none longer)
                    w = sv.model()[w_].as_string()
                    sv.pop()
                    seen.append(w)
                    n += 1
                    text = f"A(i) = {w} * B(i)"
                    try:
                        p = parse_assignment(text)
                        raised = None
                    except Exception as e:  # noqa: BLE001 - "parsing never raises"
                        p, raised = None, f"{type(e).__name__}: {e}"[:200]
                    ok = raised is None and isinstance(p, Success)
                    if ok:
                        want = s_ast.Integer(int(w)) if (mant_label == "int" and not exp) else s_ast.Float(float(w))
                        ok = p.unwrap().expression.left == want
                    if not ok:
                        rep.violation({"name": f"literal {w}", "kind": "parser-raised" if raised else "literal-misread", "spelling": w},
                                      {"property": "C12", "part": 1, "spelling": w, "class": f"input {mant_label}{exp_label}{sign_label}",
                                       "text": text, "raised": raised, "result": repr(p)[:300]})
    # and the spellings str() really produces for boundary values
    for v in [2.5e-07, 1.5e-05, 1.2345678901234568e+16, 1e+16, 1e-05, 123.456, 5e-324, 1.7976931348623157e+308]:
        n += 1
        w = str(v)
        p = parse_assignment(f"A(i) = {w}")
        if not (isinstance(p, Success) and p.unwrap().expression == s_ast.Float(v)):
            rep.violation({"name": f"literal {w}", "kind": "literal-does-not-reparse", "spelling": w},
                          {"property": "C12", "part": 1, "spelling": w, "class": "str(float)", "result": repr(p)[:300]})
    return n


def replay_literal(spelling: str):
    """Find an accepted input whose tree deparses to ``spelling`` and re-parse it."""
    from tensora.expression import parse_assignment

    candidates = {"inf": "1e999", "nan": None}
    src = candidates.get(spelling, spelling)
    if src is None:
        return {"reproduced": False}
    p = parse_assignment(f"A(i) = {src}")
    if not isinstance(p, Success):
        return {"reproduced": False, "note": f"{src} is not accepted"}
    text = p.unwrap().deparse()
    again = parse_assignment(text)
    return {"reproduced": not isinstance(again, Success) or again.unwrap() != p.unwrap(),
            "input": f"A(i) = {src}", "deparsed": text, "reparse": type(again).__name__}


# ------------------------------------------------------------------ (2),(3) meaning


def py_meaning(text: str, env: dict):
    """Conventional meaning of an arithmetic text, read by Python's own parser."""
    flat = re.sub(r"([A-Za-z][A-Za-z0-9]*)\([^)]*\)", r"\1", text)
    node = pyast.parse(flat, mode="eval").body

    def ev(n):
        if isinstance(n, pyast.BinOp):
            a, b = ev(n.left), ev(n.right)
            if isinstance(n.op, pyast.Add):
                return a + b
            if isinstance(n.op, pyast.Sub):
                return a - b
            if isinstance(n.op, pyast.Mult):
                return a * b
            raise HarnessError("operator")
        if isinstance(n, pyast.Name):
            return env.setdefault(n.id, z3.Real(n.id))
        if isinstance(n, pyast.Constant):
            return z3.RealVal(str(n.value))
        raise HarnessError(f"python ast node {type(n).__name__}")

    return ev(node)


def tree_meaning(e, env: dict):
    from tensora.expression import ast as s

    if isinstance(e, s.Tensor):
        return env.setdefault(e.name, z3.Real(e.name))
    if isinstance(e, (s.Integer, s.Float)):
        return z3.RealVal(str(e.value))
    a, b = tree_meaning(e.left, env), tree_meaning(e.right, env)
    if isinstance(e, s.Add):
        return a + b
    if isinstance(e, s.Subtract):
        return a - b
    if isinstance(e, s.Multiply):
        return a * b
    raise HarnessError("tree node")


def differ(m1, m2, env, stats):
    """None if equal for all leaf values, else a model (dict)."""
    d = z3.simplify(m1 - m2, som=True)
    if z3.is_rational_value(d) and d.numerator_as_long() == 0:
        return None
    stats["queries"] += 1
    sv = z3.Solver()
    sv.set("timeout", 10000)
    sv.add(d != 0)
    r = sv.check()
    if r == z3.unsat:
        return None
    if r == z3.sat:
        m = sv.model()
        return {k: str(m.eval(v, model_completion=True)) for k, v in env.items()}
    # multilinear fallback (each leaf occurs once): equality on the 0/1 grid is equality
    stats["grid_fallbacks"] += 1
    names = list(env)
    for bits in itertools.product([0, 1], repeat=len(names)):
        sub = [(env[n], z3.RealVal(b)) for n, b in zip(names, bits)]
        v = z3.simplify(z3.substitute(d, *sub))
        if not (z3.is_rational_value(v) and v.numerator_as_long() == 0):
            return dict(zip(names, map(str, bits)))
    return None


def laminar_sets(n):
    """All sets of non-crossing operand intervals [i,j], i<j, used as parenthesis placements."""
    ivs = [(i, j) for i in range(n) for j in range(i + 1, n)]
    out = [[]]
    for r in range(1, len(ivs) + 1):
        for combo in itertools.combinations(ivs, r):
            ok = True
            for (a, b), (c, d) in itertools.combinations(combo, 2):
                if not (b < c or d < a or (a <= c and d <= b) or (c <= a and b <= d)):
                    ok = False
                    break
            if ok:
                out.append(list(combo))
    return out


def sentences(n_max, leaves_variants=True):
    names = ["a(i)", "b(i)", "c(i)", "d(i)"]
    lits = ["2", "0.5", "0"]
    for n in range(1, n_max + 1):
        for ops in itertools.product("+-*", repeat=n - 1):
            for par in laminar_sets(n):
                variants = [names[:n]]
                if leaves_variants:
                    for k in range(n):
                        for l in lits:
                            v = list(names[:n])
                            v[k] = l
                            variants.append(v)
                for operands in variants:
                    toks = []
                    for k in range(n):
                        toks.append("(" * sum(1 for (a, b) in par if a == k))
                        toks.append(operands[k])
                        toks.append(")" * sum(1 for (a, b) in par if b == k))
                        if k < n - 1:
                            toks.append(f" {ops[k]} ")
                    yield "".join(toks)


def _sentence_worker(args):
    shard, nshards, n_max, stride, offset = args
    from tensora.expression import parse_assignment

    stats = {"sentences": 0, "queries": 0, "grid_fallbacks": 0}
    bad = []
    for k, text in enumerate(sentences(n_max)):
        if k % nshards != shard:
            continue
        if stride > 1 and (k // nshards) % stride != offset % stride:
            continue
        stats["sentences"] += 1
        full = f"T(i) = {text}"
        p = parse_assignment(full)
        if not isinstance(p, Success):
            bad.append({"text": full, "why": f"valid sentence rejected: {p.failure()!r}"[:300]})
            continue
        tree = p.unwrap()
        env = {}
        m1 = tree_meaning(tree.expression, env)
        m2 = py_meaning(text, env)
        w = differ(m1, m2, env, stats)
        if w is not None:
            bad.append({"text": full, "why": "tree does not mean what the text says", "leaf_values": w,
                        "tree": repr(tree.expression)[:400]})
        # round trip of the accepted text
        again = parse_assignment(tree.deparse())
        if not isinstance(again, Success) or again.unwrap() != tree:
            bad.append({"text": full, "why": "deparse does not re-parse to the same tree", "deparsed": tree.deparse()})
        if len(bad) > 10:
            break
    return stats, bad


def trees_upto(depth, leaves):
    from tensora.expression import ast as s

    level = list(leaves)
    allt = list(leaves)
    for _ in range(depth):
        new = []
        for op in (s.Add, s.Subtract, s.Multiply):
            for a in allt:
                for b in allt:
                    if a in level or b in level or True:
                        new.append(op(a, b))
        # keep only trees of exactly the new depth by construction order
        level = new
        allt = allt + [t for t in new]
    return allt


def _deparse_worker(args):
    shard, nshards, depth, stride, offset = args
    from tensora.expression import ast as s
    from tensora.expression import parse_assignment

    leaves = [s.Tensor("a", ("i",)), s.Tensor("b", ("i",)), s.Tensor("c", ("i",)), s.Integer(2), s.Float(0.5)]
    d1 = [op(a, b) for op in (s.Add, s.Subtract, s.Multiply) for a in leaves for b in leaves]
    pool1 = leaves + d1
    stats = {"trees": 0, "queries": 0, "grid_fallbacks": 0}
    bad = []

    def gen():
        if depth <= 2:
            for op in (s.Add, s.Subtract, s.Multiply):
                for a in pool1:
                    for b in pool1:
                        yield op(a, b)
        else:
            # depth-3 spines: a depth-2 tree against a depth-<=1 tree, both positions
            d2 = [op(a, b) for op in (s.Add, s.Subtract, s.Multiply) for a in d1 for b in pool1[:8]]
            for op in (s.Add, s.Subtract, s.Multiply):
                for a in d2:
                    for b in pool1[:12]:
                        yield op(a, b)
                        yield op(b, a)

    target = s.Tensor("T", ("i",))
    for k, t in enumerate(gen()):
        if k % nshards != shard:
            continue
        if stride > 1 and (k // nshards) % stride != offset % stride:
            continue
        stats["trees"] += 1
        text = t.deparse()
        env = {}
        w = differ(tree_meaning(t, env), py_meaning(text, env), env, stats)
        if w is not None:
            bad.append({"tree": repr(t)[:400], "deparsed": text, "why": "deparse changes the meaning", "leaf_values": w})
        # leaves may repeat here, so the round trip is checked structurally
        p = parse_assignment(f"T(i) = {text}")
        if not isinstance(p, Success) or p.unwrap().expression != t:
            bad.append({"tree": repr(t)[:400], "deparsed": text, "why": "parse(deparse(T)) != T"})
        if len(bad) > 10:
            break
    return stats, bad


def rejection_rules():
    """Finite concrete cases (not solver results): the three documented rejections and totality on
    a few malformed strings."""
    from tensora.expression import parse_assignment
    from tensora.expression._exceptions import (
        InconsistentDimensionsError,
        MutatingAssignmentError,
        NameConflictError,
    )
    from tensora.format import parse_format, parse_named_format

    out = []
    cases = [("A(i) = A(i) + B(i)", MutatingAssignmentError), ("A(i) = B(i) + B(i,j)", InconsistentDimensionsError),
             ("A(i) = B(i) * i(j)", NameConflictError), ("A(B) = B(i)", NameConflictError)]
    for text, exc in cases:
        r = parse_assignment(text)
        ok = isinstance(r, Failure) and isinstance(r.failure(), exc)
        out.append({"text": text, "expected": exc.__name__, "ok": ok})
    for text in ["", "A(i) =", "A(i) = B(i) +", "A(i) = (B(i)", "A(i) = B(i))", "A(i) == B(i)", "1 = 2", "A(i) = 1e", "A(i) = .5"]:
        try:
            r = parse_assignment(text)
            out.append({"text": text, "expected": "Failure", "ok": isinstance(r, Failure)})
        except Exception as e:  # noqa: BLE001
            out.append({"text": text, "expected": "Failure", "ok": False, "raised": type(e).__name__})
    for text, good in [("ds", True), ("d1s0", True), ("d0s0", False), ("d1", False), ("x", False), ("d1s", False), ("", True)]:
        try:
            r = parse_format(text)
            out.append({"text": f"format {text!r}", "expected": "Success" if good else "Failure",
                        "ok": isinstance(r, Success) == good})
        except Exception as e:  # noqa: BLE001
            out.append({"text": f"format {text!r}", "ok": False, "raised": type(e).__name__})
    try:
        r = parse_named_format("A:d1s0")
        out.append({"text": "named A:d1s0", "ok": isinstance(r, Success)})
    except Exception as e:  # noqa: BLE001
        out.append({"text": "named", "ok": False, "raised": type(e).__name__})
    return out


def rule_oracle(target, operands):
    """The three rejection rules, restated from the property (independent of Assignment.__post_init__):
    returns the set of rules an assignment violates.  ``target``/``operands``: (name, index tuple)."""
    bad = set()
    names = {target[0]} | {n for n, _ in operands}
    if any(n == target[0] for n, _ in operands):
        bad.add("MutatingAssignmentError")
    orders = {}
    for n, idx in operands:
        orders.setdefault(n, set()).add(len(idx))
    if any(len(v) > 1 for v in orders.values()):
        bad.add("InconsistentDimensionsError")
    index_names = set(target[1])
    for _, idx in operands:
        index_names |= set(idx)
    if names & index_names:
        bad.add("NameConflictError")
    return bad


def rule_sweep(stride, offset):
    """Every assignment 'T(..) = X(..) op Y(..) [op Z(..)]' over a small alphabet in which tensor
    names and index names overlap; the parser's verdict must agree with the oracle: accepted iff no
    rule is violated, and a rejection must be one of the violated rules (finite, concrete)."""
    import itertools

    from tensora.expression import parse_assignment

    tnames = ["A", "B", "C"]
    inames = ["i", "j", "A", "C"]
    refs = []
    for n in tnames:
        refs.append((n, ()))
        for a in inames:
            refs.append((n, (a,)))
        for a, b in [("i", "j"), ("j", "A"), ("C", "i")]:
            refs.append((n, (a, b)))
    def text(r):
        return f"{r[0]}({','.join(r[1])})"

    n = 0
    bad = []
    k = 0
    for tgt in refs:
        for ops in itertools.chain(itertools.product(refs, repeat=2), ):
            k += 1
            if k % stride != offset % stride:
                continue
            for extra in (None, refs[(k // stride) % len(refs)]):
                operands = list(ops) + ([extra] if extra else [])
                s = f"{text(tgt)} = " + " + ".join(text(o) for o in operands)
                n += 1
                want = rule_oracle(tgt, operands)
                r = parse_assignment(s)
                if isinstance(r, Success):
                    if want:
                        bad.append({"text": s, "why": f"accepted although it violates {sorted(want)}"})
                else:
                    got = type(r.failure()).__name__
                    if not want:
                        bad.append({"text": s, "why": f"valid assignment rejected with {got}"})
                    elif got not in want:
                        bad.append({"text": s, "why": f"rejected with {got}, expected one of {sorted(want)}"})
                if len(bad) > 20:
                    return n, bad
    return n, bad


def format_roundtrip(max_order):
    """Format.deparse -> parse_format == identity (finite enumeration, concrete)."""
    from tensora.format import Format, Mode, parse_format

    n = 0
    bad = []
    for order in range(max_order + 1):
        for modes in itertools.product([Mode.dense, Mode.compressed], repeat=order):
            for perm in itertools.permutations(range(order)):
                f = Format(tuple(modes), tuple(perm))
                n += 1
                r = parse_format(f.deparse())
                if not isinstance(r, Success) or r.unwrap() != f:
                    bad.append(f.deparse())
    # an order with two-digit ordering entries
    big = tuple(reversed(range(11)))
    f = Format((Mode.dense,) * 11, big)
    r = parse_format(f.deparse())
    n += 1
    if not isinstance(r, Success) or r.unwrap() != f:
        bad.append(f.deparse())
    return n, bad


def run(tier):
    t0 = time.time()
    seed = common.seed()
    rep = common.Reporter("C12")
    sp = spellings(rep)
    procs = min(16, os.cpu_count() or 1)
    ctx = mp.get_context("fork")
    sent = {"sentences": 0, "queries": 0, "grid_fallbacks": 0}
    dep = {"trees": 0, "queries": 0, "grid_fallbacks": 0}
    bad_all = []
    with ctx.Pool(procs) as pool:
        n_max, stride = (4, 2) if tier == "quick" else (4, 1)
        for st, bad in pool.imap_unordered(_sentence_worker, [(s, procs, n_max, stride, seed) for s in range(procs)]):
            for k in sent:
                sent[k] += st[k]
            bad_all += [dict(b, part=2) for b in bad]
        plans = [(2, 4 if tier == "quick" else 1)] + ([(3, 40)] if tier != "quick" else [(3, 400)])
        for depth, stride in plans:
            for st, bad in pool.imap_unordered(_deparse_worker, [(s, procs, depth, stride, seed) for s in range(procs)]):
                for k in dep:
                    dep[k] += st[k]
                bad_all += [dict(b, part=3) for b in bad]
    for b in bad_all:
        rep.violation({"name": b.get("text") or b.get("deparsed"), "kind": "text-meaning", "why": b["why"]},
                      {"property": "C12", **b})
    rules = rejection_rules()
    for r in rules:
        if not r["ok"]:
            rep.violation({"name": r["text"], "kind": "rejection-rule"}, {"property": "C12", "part": "rules", **r})
    n_rules, rbad = rule_sweep(7 if tier == "quick" else 1, seed)
    for b in rbad:
        rep.violation({"name": b["text"], "kind": "rejection-rule", "why": b["why"]}, {"property": "C12", "part": "rules", **b})
    nf, fbad = format_roundtrip(4)
    for b in fbad:
        rep.violation({"name": f"format {b}", "kind": "format-roundtrip"}, {"property": "C12", "part": "format", "format": b})
    if sent["sentences"] == 0 or dep["trees"] == 0:
        rep.harness_error("vacuous: nothing enumerated")
    # vacuity twin: a deparse that drops the parentheses of a - (b - c) must be seen as a difference
    env = {}
    from tensora.expression import ast as s_

    twin = s_.Subtract(s_.Tensor("a", ("i",)), s_.Subtract(s_.Tensor("b", ("i",)), s_.Tensor("c", ("i",))))
    if differ(tree_meaning(twin, env), py_meaning("a(i) - b(i) - c(i)", env), env, {"queries": 0, "grid_fallbacks": 0}) is None:
        rep.harness_error("vacuity twin (dropped parentheses in a - (b - c)) was not detected")
    coverage = {
        "explanation": ("(1) z3 sequence-theory queries: the regular model of str(float)/str(int) (validated against CPython on "
                        f"{sp['repr_model_validated_on']} values) must be included in the literal regexes read from the live parser; "
                        "(2) every sentence with <= 4 operands (operators + - *, every laminar parenthesis placement, tensor and literal "
                        "leaves) is parsed by the real parser and its tree's meaning is compared by z3 (leaf values symbolic Reals) "
                        "with Python's own reading of the same text, plus parse(deparse(tree)) == tree; (3) every tree of depth <= 2 "
                        "over 5 leaves (and sampled depth-3 spines): meaning(T) == meaning_python(deparse(T)) and parse(deparse(T)) == T. "
                        "The rejection rules, totality on a few malformed strings and the format round trip for all formats of order "
                        "<= 4 are finite concrete cases, run as such. 'Parsing never raises on any string' is outside: parsita's "
                        "combinators on a symbolic string are beyond the installed engines."),
        "evaluations": sent["sentences"] + dep["trees"] + nf + len(rules),
        "distinct_nontrivial": sent["sentences"] + dep["trees"],
        "rule": "distinct texts / distinct trees; non-trivial = has at least one operator",
        "samples": [next(iter(sentences(4))), "T(i) = (a(i) - b(i)) * (c(i) - d(i))", sp["counterexamples"][:2]],
        "spelling_queries": sp["queries"], "spellings_replayed_on_the_real_parser": sp.get("literal_replays"), "spelling_counterexamples": sp["counterexamples"], "live_patterns": sp["patterns"],
        "sentences": sent, "deparse_trees": dep, "formats_round_tripped": nf, "concrete_rule_cases": rules,
        "rule_sweep_assignments": n_rules,
        "known_findings_met": [k["id"] for k in rep.known],
        "functions_encoded": ["TensorExpressionParsers.floating_point/integer/name regexes (live objects)", "parse_assignment",
                              "Assignment.deparse / Add.deparse / Subtract.deparse / Multiply.deparse", "Format.deparse / parse_format"],
    }
    common.write_evidence("C12", tier, "other", coverage,
                          ["CPython's float repr round-trips (float(str(x)) == x)", "the regular model of str(float) (validated on samples)",
                           "Python's ast.parse is the independent reference for conventional precedence/associativity", "z3 trusted"],
                          time.time() - t0, len(rep.violations))
    print(f"C12 {tier}: spelling queries={sp['queries']} sentences={sent['sentences']} trees={dep['trees']} formats={nf} "
          f"wall={time.time() - t0:.0f}s", flush=True)
    return rep.exit_code()
