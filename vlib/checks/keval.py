"""C01 / C02 / C03 (and the evaluate part of C05): generated evaluate kernels on all well-formed
inputs within bounds."""

from __future__ import annotations

import time

from .. import common, corpus, judge, ksweep, replay
from ..request import Request, compile_request

PROPS = {
    "C01": {"families": ["value"], "title": "evaluate computes the mathematical meaning"},
    "C02": {"families": ["canon"], "title": "returned tensors are canonical"},
    "C03": {"families": ["support"], "title": "no phantom coordinates"},
}

MAX_CONFIRM = 12  # counterexamples replayed (and reported) per run; further ones are only counted
CONFIRM_WALL_S = 420  # replay time after which further counterexamples are only listed (if one is already confirmed)

ASSUMPTIONS = [
    "inputs satisfy the representation invariant (pos[0]=0, monotone, crd in range and strictly increasing per segment)",
    "float values are exact rationals (grid lemma: vals = solver-placed indicator cells with weights 1..m_T); rounding is outside the claim",
    "malloc/realloc never fail",
    "z3 is trusted; unknown/timeout is reported as harness error (exit 2), never as success",
    "request axis (assignment x formats) is enumerated, not symbolic",
]


def shrink_symbolic_dims(comp, dec, dimvec):
    """A model of a free dimension may be ~2^31: replays use the smallest size that still contains
    every stored coordinate (+2), which follows the same path when the property holds."""
    import copy

    from ..explore import index_classes, tensor_index_lists

    cls = index_classes(comp.assignment)
    lists = tensor_index_lists(comp.assignment)
    d2 = copy.deepcopy(dec)
    for c, v in dimvec.items():
        if v != "sym":
            continue
        need = 0
        for name, t in d2["inputs"].items():
            fmt = comp.formats[name]
            for l, lv in enumerate(t["indices"]):
                if lv and cls[lists[name][fmt.ordering[l]]] == c and lv[1]:
                    need = max(need, max(lv[1]) + 1)
        newd = min(d2["dimvals"][c], need + 2)
        d2["dimvals"][c] = newd
        for name, t in d2["inputs"].items():
            t["dimensions"] = [newd if cls[i] == c else old for i, old in zip(lists[name], t["dimensions"])]
        d2["output_dimensions"] = [newd if cls[i] == c else old
                                   for i, old in zip(lists[comp.target], d2["output_dimensions"])]
    return d2


def confirm(rec, families):
    """Replay a solver counterexample: concrete IR machine, then the real LLVM kernel."""
    req = Request.make(rec["request"]["assignment"], rec["request"]["formats"])
    comp = compile_request(req)
    dec = rec["violation"].get("decoded")
    if dec is not None and rec.get("symbolic_dimension"):
        # first at the model's own (possibly ~2^31) size on the concrete IR machine only: blocks are
        # sparse there, so nothing of that size is allocated; then at the smallest admissible size
        big = replay.concrete_ir_run(comp, ["evaluate"], dec, max_loop_iter=20000)
        if big["violation"] is not None:
            return {"ir": {"violation": big["violation"], "problems": [big["violation"]["label"]]}, "real": None, "asan": None,
                    "confirmed": True, "where": ["ir-machine at the model's dimension size (not run natively: size ~2^31)"],
                    "dimension_sizes": dec["dimvals"]}
        dec = shrink_symbolic_dims(comp, dec, rec.get("dimvec", {}))
    out = {"ir": None, "real": None, "asan": None, "confirmed": False, "where": []}
    if dec is None:
        return out
    spec_asg = None
    if rec.get("spec"):
        from tensora.expression import parse_assignment

        spec_asg = parse_assignment(rec["spec"]).unwrap()
    # JSON round trip turned Fractions into strings already
    ir = replay.concrete_ir_run(comp, ["evaluate"], dec)
    out["ir"] = {k: v for k, v in ir.items() if k != "output"}
    if ir["violation"] is not None:
        out["confirmed"] = True
        out["where"].append("ir-machine")
        out["ir"]["problems"] = [ir["violation"]["label"]]
    else:
        probs = judge.judge_output(comp, dec, ir["output"], families, spec_asg)
        out["ir"]["problems"] = probs
        if probs:
            out["confirmed"] = True
            out["where"].append("ir-machine")
    from ..request import has_broadcast_target

    if not has_broadcast_target(comp.assignment):
        real = replay.real_run(req, dec)
        out["real"] = {"status": real["status"]}
        if real["status"] == "ok":
            o = real["output"]
            o["vals_length"] = len(o["vals"])
            probs = judge.judge_output(comp, dec, o, families, spec_asg)
            out["real"]["problems"] = probs
            if probs:
                out["confirmed"] = True
                out["where"].append("llvm-jit")
        elif real["status"] in ("crash", "timeout"):
            out["real"]["detail"] = real
            out["confirmed"] = True
            out["where"].append("llvm-jit-" + real["status"])
        else:
            out["real"]["detail"] = real
    if rec["violation"]["kind"] in ("safety", "unwind", "structure"):
        asan = replay.asan_run(comp, ["evaluate"], dec)
        out["asan"] = {"status": asan["status"], "stderr": asan.get("stderr", "")[-600:]}
        if asan["status"] in ("sanitizer", "crash", "timeout"):
            out["confirmed"] = True
            out["where"].append("c-asan")
    return out


def run(pid: str, tier: str, families=None, extra_requests=None, worker=None, variants=None,
        confirm_fn=None, validate=True, level="model_checking", functions=None, extra_assumptions=(),
        task_filter=None, extra=None, validator=None, quick_corpus="full"):
    """Generic kernel sweep.  ``variants``: list of dicts merged into every task (one task per
    variant), e.g. the two C05 programs."""
    t0 = time.time()
    cfg = PROPS.get(pid, {})
    families = families or cfg.get("families", [])
    worker = worker or ksweep.run_task
    confirm_fn = confirm_fn or confirm
    seed = common.seed()
    rep = common.Reporter(pid)
    rotating = set()
    if tier == "quick":
        reqs = corpus.quick_requests() if quick_corpus == "full" else corpus.core_requests()
        rot = corpus.rotating_requests(seed, 16 if quick_corpus == "full" else 6)
        rotating = {r.key() for r in rot}
        reqs = reqs + rot
        D, N, dim_mode, max_paths, tb = 2, 2, "corners", 6000, 240
    else:
        reqs = corpus.thorough_requests(seed)
        D, N, dim_mode, max_paths, tb = 3, 2, "corners", 30000, 900
    if extra_requests:
        reqs = reqs + extra_requests
    tasks = ksweep.build_tasks(reqs, D, N, families, dim_mode, max_paths, tb,
                               symbolic_dims=(pid in ("C01", "C02", "C03")))
    if tier != "quick" and pid in ("C01", "C02", "C03", "C05"):
        # deeper bound on the input axis for small kernels: 3 stored entries per compressed level
        small = [r for r in reqs if len(r.formats) <= 3 and all(len(f.replace("0", "").replace("1", "").replace("2", "")) <= 2
                                                                 for _, f in r.formats)][:120]
        deep = ksweep.build_tasks(small, D, 3, families, dim_mode, max_paths, tb)
        for t in deep:
            t["deep"] = True
        tasks = tasks + deep
    if variants:
        tasks = [{**t, **v} for t in tasks for v in variants]
    if task_filter:
        tasks = task_filter(tasks)
    wall_budget = None
    import os

    if pid == "C01":
        # second solver: every k-th value query also goes to cvc5 (binary), verdicts must agree
        os.environ.setdefault("VERIF_CVC5_EVERY", "400" if tier == "quick" else "1500")
    if tier != "quick":
        wall_budget = int(os.environ.get("VERIF_THOROUGH_BUDGET_S", "2400"))
    results = ksweep.run_tasks(tasks, worker=worker, wall_budget=wall_budget)
    agg = {"paths": 0, "decisions": 0, "queries": 0, "solver_s": 0.0, "obligations": 0,
           "loop_iters": 0}
    refused = {}
    budget = []
    generated = set()
    samples = []
    n_viol = 0
    inconclusive = []
    rotating_cut = []
    unreplayed = []
    confirm_s = 0.0
    stmts = reached = 0
    checked = {}
    grew_requests = set()
    for r in results:
        key = r["request"]["assignment"] + " | " + ",".join(f"{k}:{v}" for k, v in r["request"]["formats"].items())
        st = r["status"]
        for k in agg:
            agg[k] += r.get("stats", {}).get(k, 0)
        if st == "refused":
            refused[key] = r["refusal"]
            continue
        generated.add(key)
        if "coverage" in r:
            stmts += r["coverage"]["statements"]
            reached += r["coverage"]["reached"]
        fl = r.get("flags", {})
        for fk, fv in fl.items():
            if isinstance(fv, int) and not isinstance(fv, bool):
                checked[fk] = checked.get(fk, 0) + fv
        if fl.get("grew"):
            grew_requests.add(key)
        if st == "harness-error":
            if tier != "quick" and "solver unknown" in r.get("error", ""):
                # thorough tier: a solver timeout makes this task inconclusive (listed, outside the claim)
                inconclusive.append({"request": key, "dimvec": r["dimvec"], "why": r.get("error", "")[:120]})
            else:
                rep.harness_error(f"{key} dims={r['dimvec']}: {r.get('error', '')[:300]}")
        elif st == "budget":
            entry = {"request": key, "dimvec": r["dimvec"], "why": r.get("error")}
            if key in rotating:
                rotating_cut.append(entry)  # a seed-rotated request outside the quick budget: recorded only
            else:
                budget.append(entry)
        elif st == "violation":
            n_viol += 1
            if n_viol > MAX_CONFIRM or (confirm_s > CONFIRM_WALL_S and rep.violations):
                # enough replayed (count or replay time): the rest is listed, not replayed
                unreplayed.append({"request": key, "dimvec": r["dimvec"], "kind": r["violation"]["kind"]})
                continue
            t_c = time.time()
            conf = confirm_fn(r, families)
            confirm_s += time.time() - t_c
            record = {"name": key, "request": key, "assignment": r["request"]["assignment"],
                      "kind": r["violation"]["kind"], "program": r.get("program") or r.get("mode"),
                      "label0": (r["violation"]["label"] or [""])[0] if isinstance(r["violation"]["label"], list) else str(r["violation"]["label"])}
            doc = {"property": pid, "request": r["request"], "dimvec": r["dimvec"], "bounds": {"D": D, "N": N},
                   "violation": r["violation"], "confirmation": conf,
                   "rerun": f"./vt replay {pid} <this file>"}
            if conf["confirmed"]:
                rep.violation(record, doc)
            else:
                rep.harness_error(f"counterexample for {key} did not reproduce on the IR machine or the real kernel: {r['violation']['kind']} {r['violation']['label']}")
                common.write_replay(pid, "unreproduced_" + key, doc)
        if len(samples) < 6 and st == "ok" and r["stats"].get("paths", 0) > 1:
            samples.append({"request": r["request"], "dimvec": r["dimvec"], "N": r["N"],
                            "paths": r["stats"]["paths"], "queries": r["stats"]["queries"],
                            "witness": r.get("witness")})
    # validate the executor against the implementation on witnesses
    if validator is not None:
        validated, val_problems = validator(results, 8 if tier == "quick" else 30, rep)
    elif validate:
        validated, val_problems = validate_witnesses(results, families, limit=12 if tier == "quick" else 40)
    else:
        validated, val_problems = 0, []
    for p in val_problems:
        rep.harness_error(p)
    if not generated:
        rep.harness_error("no kernel was generated (vacuous run)")
    if agg["paths"] == 0:
        rep.harness_error("no path completed (vacuous run)")
    wall = time.time() - t0
    coverage = {
        "states": agg["paths"],
        "transitions": agg["decisions"],
        "traces_validated_against_impl": validated,
        "samples": samples or [{"note": "no multi-path sample"}],
        "requests_total": len(reqs),
        "requests_generated": len(generated),
        "requests_refused": len(refused),
        "refusal_kinds": _count(refused.values()),
        "tasks": len(tasks), "tasks_completed": len(results),
        "tasks_cut_by_wall_budget": len(tasks) - len(results), "wall_budget_s": wall_budget,
        "queries_discharged": agg["queries"],
        "solver_s": round(agg["solver_s"], 2),
        "safety_obligations": agg["obligations"],
        "loop_iterations_unrolled": agg["loop_iters"],
        "assertions_checked": checked,
        "ir_statements": stmts,
        "ir_statements_reached": reached,
        "requests_with_growth_path": len(grew_requests),
        "budget_exceeded": budget, "inconclusive_tasks_solver_timeout": inconclusive, "rotating_requests": sorted(rotating),
        "rotating_requests_cut_by_budget": rotating_cut,
        "symbolic_dimension_tasks": sum(1 for t in tasks if t.get("symbolic_dimension")),
        "tasks_with_3_stored_entries_per_level": sum(1 for t in tasks if t.get("deep")),
        "bounds": {"dense_dimension_max": D, "stored_entries_per_compressed_level": N,
                   "sparse_only_dimensions": "additionally free in [0, 2^31-1] (one extra task per request that has one)",
                   "dimension_vectors": dim_mode, "initial_capacity": "symbolic in [1, 2^20]",
                   "max_paths_per_task": max_paths},
        "functions_encoded": functions or ["tensora.generate.generate_module_tensora (output IR executed symbolically)",
                                           "tensora.ir.peephole (as part of the pipeline)"],
        "violations_found_by_solver": n_viol,
        "solver_counterexamples_not_replayed": unreplayed[:50],
        "known_findings_met": [k["id"] for k in rep.known],
    }
    if extra is not None:
        coverage.update(extra(rep, coverage))
        wall = time.time() - t0
    common.write_evidence(pid, tier, level, coverage, ASSUMPTIONS + list(extra_assumptions), wall,
                          len(rep.violations))
    print(f"{pid} {tier}: requests={len(reqs)} generated={len(generated)} refused={len(refused)} "
          f"tasks={len(tasks)} paths={agg['paths']} queries={agg['queries']} solver={agg['solver_s']:.1f}s "
          f"validated={validated} budget_exceeded={len(budget)} wall={wall:.0f}s", flush=True)
    if budget and tier == "quick":
        rep.harness_error(f"{len(budget)} tasks exceeded their budget in the quick tier")
    return rep.exit_code()


def assemble_support_extra(tier):
    """C03 for the separately generated assemble kernel (core corpus)."""
    def run_extra(rep, coverage):
        from .. import judge as _judge
        from .. import kprog

        reqs = corpus.core_requests() if tier == "quick" else corpus.thorough_requests(common.seed(), per_shape=8, per_shape3=4)
        tasks = ksweep.build_tasks(reqs, 2, 2, ["support"], "corners", 6000, 240)
        tasks = [{**t, "mode": "c03a", "program": "assemble"} for t in tasks]
        import os

        wb = None if tier == "quick" else int(os.environ.get("VERIF_THOROUGH_BUDGET_S", "2400")) // 3
        results = ksweep.run_tasks(tasks, worker=kprog.run_task, wall_budget=wb)
        agg = {"paths": 0, "queries": 0}
        n_v = 0
        for r in results:
            for k in agg:
                agg[k] += r.get("stats", {}).get(k, 0)
            key = r["request"]["assignment"] + " | " + ",".join(f"{k}:{v}" for k, v in r["request"]["formats"].items())
            if r["status"] == "harness-error":
                rep.harness_error(f"assemble {key}: {r.get('error', '')[:200]}")
            elif r["status"] == "budget" and tier == "quick":
                rep.harness_error(f"assemble {key}: budget")
            elif r["status"] == "violation":
                n_v += 1
                if n_v > 6:
                    continue
                req = Request.make(r["request"]["assignment"], r["request"]["formats"])
                comp = compile_request(req, kinds=kprog.KINDS3)
                dec = r["violation"].get("decoded")
                conf = {"confirmed": False}
                if dec is not None:
                    ir = replay.concrete_ir_run(comp, ["assemble"], dec)
                    if ir["violation"] is not None:
                        conf = {"confirmed": True, "where": "ir-machine", "violation": ir["violation"]}
                    else:
                        o = ir["output"]
                        o["vals"] = [0.0] * len(o["vals"])
                        probs = _judge.judge_output(comp, dec, o, ["support"])
                        conf = {"confirmed": bool(probs), "where": "ir-machine (assemble kernel)", "problems": probs}
                doc = {"property": "C03", "part": "assemble kernel", "request": r["request"], "dimvec": r["dimvec"],
                       "violation": r["violation"], "confirmation": conf}
                if conf["confirmed"]:
                    rep.violation({"name": key, "kind": r["violation"]["kind"], "program": "assemble", "request": key}, doc)
                else:
                    rep.harness_error(f"assemble counterexample for {key} did not reproduce")
        return {"assemble_kernel_support": {"tasks": len(tasks), "completed": len(results), **agg, "solver_counterexamples": n_v}}

    return run_extra


def _count(xs):
    out = {}
    for x in xs:
        out[x] = out.get(x, 0) + 1
    return out


def validate_witnesses(results, families, limit):
    """Serval-style: inputs taken from solver models are pushed through the concrete IR machine and
    the real LLVM kernel; both must agree with each other and with the concrete oracle."""
    from ..request import has_broadcast_target

    n = 0
    problems = []
    for r in results:
        if n >= limit:
            break
        w = r.get("witness")
        if r["status"] != "ok" or not w:
            continue
        req = Request.make(r["request"]["assignment"], r["request"]["formats"])
        comp = compile_request(req)
        if has_broadcast_target(comp.assignment):
            continue
        if r.get("symbolic_dimension"):
            w = shrink_symbolic_dims(comp, w, r.get("dimvec", {}))
        ir = replay.concrete_ir_run(comp, ["evaluate"], w)
        if ir["violation"] is not None:
            problems.append(f"witness of a verified path violates on the IR machine: {req.key()} {ir['violation']}")
            continue
        real = replay.real_run(req, w)
        if real["status"] != "ok":
            problems.append(f"real kernel failed on a witness: {req.key()} {real}")
            continue
        o = real["output"]
        if not judge.same_raw(ir["output"], o):
            problems.append(f"IR machine and real kernel disagree on a witness: {req.key()} {ir['output']} vs {o}")
            continue
        o["vals_length"] = len(o["vals"])
        probs = judge.judge_output(comp, w, o, ["value", "canon", "support"])
        if probs:
            problems.append(f"real kernel output of a verified path fails the concrete oracle: {req.key()} {probs}")
            continue
        n += 1
    return n, problems
