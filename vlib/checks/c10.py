"""C10 — inconsistent arguments are refused before any kernel runs.

Every path first makes an earlier *consistent* call of the same TensorMethod object with independent
symbolic sizes, so a decision that depends on state kept from an earlier call shows up.

The real ``TensorMethod.__call__`` (and the evaluate wrappers) run on proxy tensors whose order,
modes, mode ordering and every dimension size are symbolic; the compiled kernel pointer is replaced
by a spy.  z3 decides, for every path that reaches the spy, that the arguments are consistent."""

from __future__ import annotations

import time

import z3
from tensora import Tensor
from tensora.format import Mode

from .. import common, pyproxy
from ..kse import HarnessError, Violation
from ..pyproxy import SymEnum, SymInt
from ..request import Request, compile_request
from ..sym import INT_MAX

MAX_ORDER = 4


class Entered(Exception):
    def __init__(self, args):
        self.args_seen = args


class SymTensor(Tensor):
    """A Tensor whose metadata is symbolic (FFI stub: no cffi structure behind it)."""

    def __init__(self, name):
        self.name = name
        self.cffi_tensor = ("cffi", name)
        self.order_t = z3.Int(f"{name}_order")

    def base(self, m):
        m.assume(self.order_t >= 0)
        m.assume(self.order_t <= MAX_ORDER)
        for k in range(MAX_ORDER):
            m.assume(self.dim_t(k) >= 0)
            m.assume(self.dim_t(k) <= INT_MAX)
            m.assume(self.mode_t(k) >= 0)
            m.assume(self.mode_t(k) <= 1)
            m.assume(self.ord_t(k) >= 0)
            m.assume(self.ord_t(k) < MAX_ORDER)

    def dim_t(self, k):
        return z3.Int(f"{self.name}_dim{k}")

    def mode_t(self, k):
        return z3.Int(f"{self.name}_mode{k}")

    def ord_t(self, k):
        return z3.Int(f"{self.name}_ord{k}")

    @property
    def order(self):
        return SymInt(self.order_t, dom=(0, MAX_ORDER))

    def _n(self):
        return self.order.concretise()

    @property
    def dimensions(self):
        return tuple(SymInt(self.dim_t(k)) for k in range(self._n()))

    @property
    def modes(self):
        return tuple(SymEnum(self.mode_t(k), [Mode.dense, Mode.compressed]) for k in range(self._n()))

    @property
    def mode_ordering(self):
        return tuple(SymInt(self.ord_t(k), dom=(0, MAX_ORDER - 1)) for k in range(self._n()))


class PriorTensor(SymTensor):
    """The argument of an *earlier*, consistent call of the same method: format exactly as generated,
    dimension sizes fresh symbols (equal for participants of one index).  Used to decide that a call is
    judged by its own arguments only - no state kept from an earlier call."""

    def __init__(self, name, fmt):
        super().__init__(name + "$prior")
        self.fmt = fmt

    @property
    def order(self):
        return self.fmt.order

    @property
    def dimensions(self):
        return tuple(SymInt(self.dim_t(k)) for k in range(self.fmt.order))

    @property
    def modes(self):
        return tuple(self.fmt.modes)

    @property
    def mode_ordering(self):
        return tuple(self.fmt.ordering)


CASES = [
    ("y(i) = A(i,j) * x(j)", {"y": "d", "A": "ds", "x": "d"}),
    ("a(i) = b(i) + c(i) + d(i)", {"a": "s", "b": "s", "c": "d", "d": "s"}),
    ("A(i,j) = B(i,j) + B(j,i)", {"A": "dd", "B": "ds"}),
    ("a(i,j) = b(i,j) + c(i,k) * d(k,j) + e(j) + b(j,i)", {"a": "dd", "b": "dd", "c": "ds", "d": "ds", "e": "d"}),
    ("A(i,k) = B(i,j) * C(j,k)", {"A": "dd", "B": "ds", "C": "d1s0"}),
    ("o() = X() + Y(k) + Z(k)", {"o": "", "X": "", "Y": "d", "Z": "s"}),
    ("A(i,j,k) = B(k,i,j) * c(k)", {"A": "dss", "B": "s1s2d0", "c": "d"}),
    ("a(i) = b(i) * b(i)", {"a": "s", "b": "s"}),
    # every operator class between participants of one index (participants are collected per node class)
    ("a(i) = b(i) - c(i)", {"a": "d", "b": "s", "c": "d"}),
    ("r(i) = b(i) - A(i,j) * x(j)", {"r": "d", "b": "d", "A": "ds", "x": "d"}),
    ("a(i) = d(i) * (b(i) - c(i))", {"a": "d", "d": "s", "b": "d", "c": "d"}),
    ("a(i) = b(i) * c(i) - d(i) * e(i)", {"a": "d", "b": "d", "c": "s", "d": "s", "e": "d"}),
    ("a(i) = 2 * b(i) - (c(i) + d(i))", {"a": "d", "b": "d", "c": "d", "d": "s"}),
]


def consistency(tm, problem, tensors, recorded):
    """The oracle, restated from the property: formats as generated; all participants of an index
    have equal size; output dimensions are the target indexes' sizes."""
    conds = []
    asg = problem.assignment
    for name, fmt in problem.formats.items():
        if name == asg.target.name:
            continue
        t = tensors[name]
        conds.append(t.order_t == fmt.order)
        for k in range(fmt.order):
            conds.append(t.mode_t(k) == [Mode.dense, Mode.compressed].index(fmt.modes[k]))
            conds.append(t.ord_t(k) == fmt.ordering[k])
    sizes = {}
    for name, occs in asg.expression.variables().items():
        for occ in occs:
            for d, idx in enumerate(occ.indexes):
                sizes.setdefault(idx, []).append(tensors[name].dim_t(d))
    for idx, terms in sizes.items():
        for a in terms[1:]:
            conds.append(a == terms[0])
    if recorded is None:
        conds.append(z3.BoolVal(False))
    else:
        modes, dims, ordering = recorded
        out_fmt = problem.formats[asg.target.name]
        if tuple(modes) != tuple(mm.c_int for mm in out_fmt.modes) or tuple(ordering) != tuple(out_fmt.ordering):
            conds.append(z3.BoolVal(False))
        if len(dims) != len(asg.target.indexes):
            conds.append(z3.BoolVal(False))
        else:
            for d, idx in zip(dims, asg.target.indexes):
                dt = d.t if isinstance(d, SymInt) else z3.IntVal(d)
                conds.append(dt == sizes[idx][0])
    return conds


def run_case(assignment, formats, backend="llvm"):
    import tensora.compile._tensor_method as tmod
    from tensora import BackendCompiler, tensor_method

    tm = tensor_method(assignment, formats, BackendCompiler[backend])
    problem = tm._problem
    input_names = [n for n in problem.formats if n != problem.assignment.target.name]
    tensors = {n: SymTensor(n) for n in input_names}
    outcome = {"entered": 0, "refused": {}, "violations": []}
    real_alloc = tmod.allocate_taco_structure
    real_eval = tm._evaluate
    rec = {}

    def recorder(modes, dims, ordering):
        rec["call"] = (modes, dims, ordering)
        return ("cffi", "output")

    def spy(*args):
        raise Entered(args)

    prior = {n: PriorTensor(n, problem.formats[n]) for n in input_names}
    prior_sizes = {}
    for name, occs in problem.assignment.expression.variables().items():
        for occ in occs:
            for d, idx in enumerate(occ.indexes):
                prior_sizes.setdefault(idx, []).append(prior[name].dim_t(d))

    def base(m):
        for t in tensors.values():
            t.base(m)
        for terms in prior_sizes.values():
            for a in terms:
                m.assume(a >= 0)
                m.assume(a <= INT_MAX)
            for a in terms[1:]:
                m.assume(a == terms[0])

    def body(m):
        # an earlier, consistent call with other sizes (must reach the kernel); then the call under test
        try:
            tm(**prior)
            outcome["violations"].append({"kind": "returned-without-entering-the-kernel", "call": "prior"})
            return
        except Entered:
            pass
        except (TypeError, ValueError) as e:
            m.check()
            outcome["violations"].append({"kind": "consistent-arguments-refused", "exception": f"{type(e).__name__}: {e}"[:300]})
            return
        rec.clear()
        try:
            tm(**tensors)
        except Entered:
            outcome["entered"] += 1
            conds = consistency(tm, problem, tensors, rec.get("call"))
            r = m.check(z3.Not(z3.And(*conds)))
            if r != z3.unsat:
                model = m.solver.model()
                bad = [str(c) for c in conds if not z3.is_true(model.eval(c, model_completion=True))]
                witness = {str(d): str(model[d]) for d in model.decls()
                           if any(str(d).startswith(n + "_") for n in tensors)}
                outcome["violations"].append({"kind": "kernel-entered-on-inconsistent-arguments",
                                              "falsified": bad[:4], "witness": witness})
            return
        except (TypeError, ValueError) as e:
            k = type(e).__name__
            outcome["refused"][k] = outcome["refused"].get(k, 0) + 1
            return
        except (HarnessError, Violation):
            raise
        except pyproxy.Infeasible:
            raise
        except Exception as e:  # noqa: BLE001
            m.check()
            outcome["violations"].append({"kind": "undocumented-exception", "exception": f"{type(e).__name__}: {e}"[:300]})
            return
        outcome["violations"].append({"kind": "returned-without-entering-the-kernel"})

    tmod.allocate_taco_structure = recorder
    tm._evaluate = spy
    try:
        stats = pyproxy.explore(base, body)
    finally:
        tmod.allocate_taco_structure = real_alloc
        tm._evaluate = real_eval
    return outcome, stats


def concrete_cases():
    """Missing / extra / non-Tensor arguments through the public wrappers (finite, concrete)."""
    from tensora import Tensor, evaluate, tensor_method
    from tensora.compile import evaluate_cffi

    A = Tensor.from_lol([[1.0, 2.0], [3.0, 4.0]])
    x = Tensor.from_lol([1.0, 2.0])
    x3 = Tensor.from_lol([1.0, 2.0, 3.0])
    xs = Tensor.from_lol([1.0, 2.0], format="s")
    f = tensor_method("y(i) = A(i,j) * x(j)", {"y": "d", "A": "dd", "x": "d"})
    cases = [
        ("tensor_method: missing argument", lambda: f(A=A)),
        ("tensor_method: extra argument", lambda: f(A=A, x=x, z=x)),
        ("tensor_method: positional argument", lambda: f(A, x)),
        ("tensor_method: non-Tensor argument", lambda: f(A=A, x=[1.0, 2.0])),
        ("tensor_method: number argument", lambda: f(A=A, x=5)),
        ("tensor_method: wrong format", lambda: f(A=A, x=xs)),
        ("tensor_method: wrong order", lambda: f(A=x, x=x)),
        ("tensor_method: wrong size", lambda: f(A=A, x=x3)),
    ]
    # every public wrapper x every way of making one argument inconsistent
    from tensora.compile import evaluate_tensora

    asg = "y(i) = A(i,j) * x(j)"
    for wname, w in (("evaluate", evaluate), ("evaluate_cffi", evaluate_cffi), ("evaluate_tensora", evaluate_tensora)):
        for fault, kwargs in (("number argument", dict(A=A, x=5)), ("list argument", dict(A=A, x=[1.0, 2.0])),
                              ("missing argument", dict(A=A)), ("extra argument", dict(A=A, x=x, z=x)),
                              ("misnamed argument", dict(A=A, w=x)), ("wrong order", dict(A=x, x=x)),
                              ("wrong order (higher)", dict(A=A, x=A)), ("wrong size", dict(A=A, x=x3)),
                              ("None argument", dict(A=A, x=None))):
            cases.append((f"{wname}: {fault}", (lambda w=w, kwargs=kwargs: w(asg, "d", **kwargs))))
    from tensora.problem import IncorrectDimensionsError, UndefinedReferenceError, UnusedFormatError

    allowed = (TypeError, ValueError, IncorrectDimensionsError, UndefinedReferenceError, UnusedFormatError)
    out = []
    for name, fn in cases:
        try:
            fn()
            out.append({"case": name, "outcome": "returned a result", "ok": False})
        except allowed as e:
            out.append({"case": name, "outcome": type(e).__name__, "ok": True})
        except Exception as e:  # noqa: BLE001
            out.append({"case": name, "outcome": f"{type(e).__name__}: {e}"[:200], "ok": False})
    return out


def run(tier):
    t0 = time.time()
    rep = common.Reporter("C10")
    from .. import corpus as _corpus

    # every expression shape of the kernel corpus with all-dense formats (C10 is about the argument checks, which
    # depend on the assignment's participants, not on formats): cheap, and closes shape-specific gaps
    shape_cases = []
    seen_shapes = {a for a, _ in CASES}
    for shape in _corpus.SHAPES_CORE + _corpus.SHAPES_ORDER3:
        if shape in seen_shapes:
            continue
        seen_shapes.add(shape)
        shape_cases.append((shape, {n: "d" * o for n, o in _corpus.tensor_orders(shape).items()}))
    cases = CASES + shape_cases if tier == "quick" else CASES + shape_cases + [
        ("A(i,j) = B(i,j) + C(i,j)", {"A": "ss", "B": "ss", "C": "ds"}),
        ("a(i) = X(i) + Y(i,k) - Z(k,i)", {"a": "d", "X": "s", "Y": "ds", "Z": "d1s0"}),
        ("A(i,j) = B(i,k,l) * C(k,j) * D(l,j)", {"A": "dd", "B": "sss", "C": "dd", "D": "dd"}),
    ]
    backends = ["llvm"] if tier == "quick" else ["llvm", "cffi"]
    tot = {"paths": 0, "decisions": 0, "queries": 0, "solver_s": 0.0}
    samples = []
    skipped = []
    entered_total = 0
    from tensora.compile import BroadcastTargetIndexError
    from tensora.desugar import DiagonalAccessError, NoKernelFoundError

    for a, f in cases:
        for be in backends:
            try:
                outcome, stats = run_case(a, f, be)
            except HarnessError as e:
                rep.harness_error(f"{a}: {e}")
                continue
            except (NoKernelFoundError, DiagonalAccessError, BroadcastTargetIndexError) as e:
                skipped.append({"assignment": a, "formats": f, "refusal": type(e).__name__})
                continue
            tot["paths"] += stats.paths
            tot["decisions"] += stats.decisions
            tot["queries"] += stats.queries
            tot["solver_s"] += stats.solver_s
            entered_total += outcome["entered"]
            # vacuity guards (a case that already reports a violation explains its own missing paths)
            if outcome["entered"] == 0 and not outcome["violations"]:
                rep.harness_error(f"vacuous: no path reaches the kernel for {a}")
            if not outcome["refused"] and not outcome["violations"]:
                rep.harness_error(f"vacuous: no refusal path for {a}")
            for v in outcome["violations"]:
                rep.violation({"name": a, "kind": v["kind"], "assignment": a},
                              {"property": "C10", "assignment": a, "formats": f, "backend": be, **v})
            samples.append({"assignment": a, "formats": f, "backend": be, "paths": stats.paths,
                            "entered": outcome["entered"], "refused": outcome["refused"]})
    conc = concrete_cases()
    for c in conc:
        if not c["ok"]:
            rep.violation({"name": c["case"], "kind": "wrong-refusal", "case": c["case"]},
                          {"property": "C10", **c})
    coverage = {
        "states": tot["paths"], "transitions": tot["decisions"], "traces_validated_against_impl": len(conc),
        "samples": samples, "queries_discharged": tot["queries"], "solver_s": round(tot["solver_s"], 2),
        "paths_reaching_kernel": entered_total, "requests_refused_by_compiler": skipped,
        "concrete_wrapper_cases": conc,
        "bounds": {"order": f"0..{MAX_ORDER}", "dimension sizes": "0..2^31-1 (never concretised)",
                   "modes": "dense|compressed per level", "ordering entries": f"0..{MAX_ORDER - 1}"},
        "functions_encoded": ["tensora.compile._tensor_method.TensorMethod.__call__ (real code on proxy tensors)",
                              "tensora.expression.ast.*.index_participants"],
        "stubs": ["SymTensor(Tensor): order/dimensions/modes/mode_ordering return z3-backed proxies",
                  "allocate_taco_structure replaced by a recorder", "compiled kernel pointer replaced by a spy"],
        "known_findings_met": [k["id"] for k in rep.known],
    }
    common.write_evidence("C10", tier, "model_checking", coverage,
                          ["request axis enumerated; argument metadata symbolic", "z3 trusted",
                           "missing/extra/non-Tensor arguments are finite concrete cases of Signature.bind and are run as such"],
                          time.time() - t0, len(rep.violations))
    print(f"C10 {tier}: cases={len(cases) * len(backends)} paths={tot['paths']} queries={tot['queries']} entered={entered_total} "
          f"wall={time.time() - t0:.0f}s", flush=True)
    return rep.exit_code()
