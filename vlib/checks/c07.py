"""C07 — peephole never changes what a program computes.
(a) generated kernels before/after optimisation (kprog mode c07);
(b) all small typed expression trees and statement trees (E3)."""

from __future__ import annotations

import multiprocessing as mp
import os
import time

import z3
from tensora.ir import ast as ir

from .. import common, corpus, kprog, ksweep, sym, trees
from ..sym import band, bnot, zb
from . import keval, kprogs


# ------------------------------------------------------------------ (b) expression trees


def check_tree(t, env, solver, stats, peephole_expression):
    """Returns None if equivalent, else a dict describing the counterexample."""
    t2 = peephole_expression(t)
    if t2 == t:
        return None
    stats["changed"] += 1
    ta, a, sa, aa = trees.meaning(t, env)
    try:
        tb, b, sb, ab = trees.meaning(t2, env)
    except (TypeError, KeyError) as e:
        return {"tree": repr(t), "optimised": repr(t2), "why": f"optimised tree is ill-typed: {e}"}
    eq = trees.values_equal(ta, a, tb, b)
    good = band(sb, eq, trees.accesses_contained(ab, aa))
    claim = sym.bimplies(sa, good)
    claim = sym.simp_bool(claim)
    if claim is True:
        return None
    stats["queries"] += 1
    t0 = time.perf_counter()
    r = solver.check(z3.Not(zb(claim)))
    m = solver.model() if r == z3.sat else None
    if r == z3.unknown:
        # the incremental solver's history matters for the resource limit: retry from scratch with more
        fresh = z3.Solver()
        fresh.set("rlimit", 300000000)
        for c in env.pre:
            fresh.add(c)
        r = fresh.check(z3.Not(zb(claim)))
        m = fresh.model() if r == z3.sat else None
    stats["solver_s"] += time.perf_counter() - t0
    if r == z3.unsat:
        return None
    if r == z3.unknown:
        return {"tree": repr(t), "optimised": repr(t2), "why": "unknown", "unknown": True}
    envv = {k: str(m.eval(v, model_completion=True)) for k, v in env.vars.items()}
    kind = "not-equivalent"
    if narrowed(t, t2):
        # Is int32 overflow of an operation that the original performed in double the only difference?
        env2 = trees.Env()
        env2.check_overflow = False
        _, _, sb2, ab2 = trees.meaning(t2, env2)
        claim2 = sym.simp_bool(sym.bimplies(sa, band(sb2, eq, trees.accesses_contained(ab2, aa))))
        if claim2 is True or solver.check(z3.Not(zb(claim2))) == z3.unsat:
            kind = "float-to-int-narrowing"
    return {"tree": repr(t), "optimised": repr(t2), "env": envv, "kind": kind,
            "types": [ta, tb], "why": "original safe but optimised unsafe or different"}


def narrowed(t, t2) -> bool:
    """Some arithmetic node computed in double by the original is computed in int32 by the
    optimised tree (an identity rule with a float literal dropped the promotion)."""
    def float_arith_on_ints(e):
        if isinstance(e, trees.ARITH):
            a, b = trees.type_of(e.left), trees.type_of(e.right)
            if "float" in (a, b) and "int" in (a, b):
                return True
            return float_arith_on_ints(e.left) or float_arith_on_ints(e.right)
        for f in ("left", "right", "expression", "index", "target"):
            if hasattr(e, f) and float_arith_on_ints(getattr(e, f)):
                return True
        return False

    return float_arith_on_ints(t)


def _tree_worker(args):
    shard, nshards, depth, stride, offset, mutate = args
    from tensora.ir._peephole import peephole_expression

    env = trees.Env()
    solver = z3.Solver()
    solver.set("rlimit", 30000000)  # deterministic resource limit instead of a wall-clock timeout (machine load)
    for c in env.pre:
        solver.add(c)
    stats = {"trees": 0, "changed": 0, "queries": 0, "solver_s": 0.0, "by_kind": {}}
    bad = []
    lv = trees.leaves()
    d1 = trees.grow(lv)
    pool1 = trees.merge(lv, d1)
    if depth == 1:
        it = trees.grow_iter(lv)
    elif depth == 2:
        it = trees.grow_iter(pool1)
    else:
        it = spine_trees(pool1)
    for k, t in enumerate(it):
        if k % nshards != shard:
            continue
        if stride > 1 and (k // nshards) % stride != offset % stride:
            continue
        stats["trees"] += 1
        r = check_tree(t, env, solver, stats, peephole_expression)
        if r is not None:
            kind = "unknown" if r.get("unknown") else r.get("kind", "not-equivalent")
            stats["by_kind"][kind] = stats["by_kind"].get(kind, 0) + 1
            if stats["by_kind"][kind] <= 3:
                bad.append(r)
            if kind != "float-to-int-narrowing" and stats["by_kind"][kind] >= 20:
                break
        if len(env.cache) > 200000:
            env.cache.clear()
    return stats, bad


def spine_trees(pool1):
    """Depth-3 'spine' trees: a depth-2 tree in one operand position, a leaf in the other; plus
    ArrayIndex wrappers around int sub-trees."""
    lv = trees.leaves()
    d2 = trees.grow_iter(pool1)
    leaf_by_type = lv
    for sub in d2:
        ts = trees.type_of(sub)
        if ts is None:
            continue
        if ts in ("int", "float"):
            others = leaf_by_type["int"] + leaf_by_type["float"]
            for op in trees.ARITH:
                for o in others:
                    yield op(sub, o)
                    yield op(o, sub)
        if ts == "int":
            for op in trees.CMPS + (ir.Min, ir.Max):
                for o in leaf_by_type["int"]:
                    yield op(sub, o)
                    yield op(o, sub)
            yield ir.ArrayIndex(ir.Variable("ia"), sub)
            yield ir.ArrayIndex(ir.Variable("fa"), sub)
        if ts == "bool":
            for op in (ir.And, ir.Or, ir.Equal, ir.NotEqual):
                for o in leaf_by_type["bool"]:
                    yield op(sub, o)
                    yield op(o, sub)
            yield ir.BooleanToInteger(sub)


def array_trees():
    """Depth <= 2 trees with array reads in short-circuit positions (guarded out-of-range load)."""
    ia = ir.Variable("ia")
    fa = ir.Variable("fa")
    x, y = ir.Variable("x"), ir.Variable("y")
    idxs = [x, ir.IntegerLiteral(0), ir.Add(x, ir.IntegerLiteral(0)), ir.Multiply(x, ir.IntegerLiteral(1)),
            ir.Add(x, ir.IntegerLiteral(1)), ir.Multiply(x, ir.IntegerLiteral(0))]
    out = []
    for i in idxs:
        load = ir.ArrayIndex(ia, i)
        out.append(load)
        out.append(ir.Add(load, ir.IntegerLiteral(0)))
        out.append(ir.Multiply(load, ir.IntegerLiteral(0)))
        out.append(ir.Multiply(ir.IntegerLiteral(0), load))
        out.append(ir.Multiply(ir.ArrayIndex(fa, i), ir.FloatLiteral(0.0)))
        out.append(ir.Subtract(load, load))
        for g in [ir.BooleanLiteral(True), ir.BooleanLiteral(False), ir.Variable("p"),
                  ir.LessThan(x, ir.Variable("ia_len_v"))]:
            if isinstance(g, ir.LessThan):
                continue
            cmpx = ir.Equal(load, y)
            out.append(ir.And(g, cmpx))
            out.append(ir.And(cmpx, g))
            out.append(ir.Or(g, cmpx))
            out.append(ir.Or(cmpx, g))
            out.append(ir.Equal(load, load))
            out.append(ir.LessThan(load, load))
    return out


def run_trees(tier, rep, seed):
    procs = min(16, os.cpu_count() or 1)
    plan = []
    if tier == "quick":
        plan.append((1, 1, 0))
        plan.append((2, 40, seed))
    else:
        plan.append((1, 1, 0))
        plan.append((2, 1, 0))
        plan.append((3, 8, seed))
    total = {"trees": 0, "changed": 0, "queries": 0, "solver_s": 0.0}
    total_kinds = {}
    per_depth = {}
    bad_all = []
    ctx = mp.get_context("fork")
    with ctx.Pool(procs) as pool:
        for depth, stride, off in plan:
            jobs = [(s, procs, depth, stride, off, None) for s in range(procs)]
            st = {"trees": 0, "changed": 0, "queries": 0, "solver_s": 0.0}
            kinds = {}
            for stats, bad in pool.imap_unordered(_tree_worker, jobs):
                for k in st:
                    st[k] += stats[k]
                for k, v in stats["by_kind"].items():
                    kinds[k] = kinds.get(k, 0) + v
                bad_all += [dict(b, depth=depth) for b in bad]
            st["counterexamples_by_kind"] = kinds
            per_depth[str(depth)] = {**st, "stride": stride, "solver_s": round(st["solver_s"], 2)}
            for k in total:
                total[k] += st[k]
            for k, v in kinds.items():
                total_kinds[k] = total_kinds.get(k, 0) + v
    # arrays / short-circuit
    from tensora.ir._peephole import peephole_expression

    env = trees.Env()
    solver = z3.Solver()
    solver.set("timeout", 20000)
    for c in env.pre:
        solver.add(c)
    st = {"trees": 0, "changed": 0, "queries": 0, "solver_s": 0.0}
    for t in array_trees():
        if trees.type_of(t) is None:
            continue
        st["trees"] += 1
        r = check_tree(t, env, solver, st, peephole_expression)
        if r is not None:
            bad_all.append(dict(r, depth="array"))
    per_depth["array"] = st
    for k in total:
        total[k] += st[k]
    total["counterexamples_by_kind"] = total_kinds
    return total, per_depth, bad_all


def vacuity_twin():
    """The harness must find the property's own example mutant: 0 - x => x."""
    from tensora.ir._peephole import peephole_expression

    def bad_peephole(e):
        if isinstance(e, ir.Subtract) and e.left == ir.IntegerLiteral(0):
            return e.right
        return peephole_expression(e)

    env = trees.Env()
    solver = z3.Solver()
    for c in env.pre:
        solver.add(c)
    st = {"trees": 0, "changed": 0, "queries": 0, "solver_s": 0.0}
    r = check_tree(ir.Subtract(ir.IntegerLiteral(0), ir.Variable("x")), env, solver, st, bad_peephole)
    return r is not None and not r.get("unknown")


# ------------------------------------------------------------------ replay of tree counterexamples


def replay_expr_c(t, t2, envv):
    """Compile both trees through the real C printer and evaluate them on the counterexample
    environment (gcc -fwrapv: int32 wraps as the LLVM back end's add/sub/mul do)."""
    import subprocess
    import tempfile

    from tensora.codegen._ir_to_c import ir_to_c_expression

    def num(s):
        s = str(s)
        if "/" in s:
            a, b = s.split("/")
            return repr(float(int(a)) / float(int(b)))
        return s

    src = f"""
#include <stdint.h>
#include <stdbool.h>
#include <stdio.h>
#define TACO_MIN(_a,_b) ((_a) < (_b) ? (_a) : (_b))
#define TACO_MAX(_a,_b) ((_a) > (_b) ? (_a) : (_b))
int main(void) {{
  int32_t x = {num(envv.get('x', 0))}, y = {num(envv.get('y', 0))};
  double u = {num(envv.get('u', 0))}, v = {num(envv.get('v', 0))};
  bool p = {str(envv.get('p', 'False')).lower()}, q = {str(envv.get('q', 'False')).lower()};
  int32_t ia[3] = {{0, 0, 0}}; double fa[3] = {{0, 0, 0}};
  double r0 = (double)({ir_to_c_expression(t)});
  double r1 = (double)({ir_to_c_expression(t2)});
  printf("%.17g %.17g\\n", r0, r1);
  return 0;
}}
"""
    with tempfile.TemporaryDirectory(prefix="verif_tree_") as td:
        c = os.path.join(td, "t.c")
        with open(c, "w") as f:
            f.write(src)
        cp = subprocess.run(["gcc", "-std=gnu11", "-fwrapv", "-O0", "-w", c, "-o", os.path.join(td, "t")],
                            capture_output=True, text=True)
        if cp.returncode != 0:
            return {"status": "compile-error", "stderr": cp.stderr[-500:]}
        rp = subprocess.run([os.path.join(td, "t")], capture_output=True, text=True, timeout=20)
        a, b = rp.stdout.split()
        return {"status": "ok", "original": float(a), "optimised": float(b), "differs": float(a) != float(b)}


def replay_expr_llvm(t, t2, envv):
    """Compile both trees through the real LLVM back end (the evaluate path) and call them."""
    import ctypes
    from fractions import Fraction

    from tensora.compile._compile_llvm import compile_module
    from tensora.ir import types as irt

    tys = {"int": irt.integer, "float": irt.float, "bool": irt.boolean}
    cty = {"int": ctypes.c_int32, "float": ctypes.c_double, "bool": ctypes.c_bool}
    params = [ir.Declaration(ir.Variable(n), tys[trees.VAR_TYPES[n]]) for n in ("x", "y", "u", "v", "p", "q")]
    fns = []
    rts = []
    for k, e in enumerate((t, t2)):
        rt = trees.type_of(e)
        if rt not in tys:
            return {"status": "unsupported"}
        rts.append(rt)
        fns.append(ir.FunctionDefinition(ir.Variable(f"f{k}"), params, tys[rt], ir.Block([ir.Return(e)])))
    try:
        engine = compile_module(ir.Module(fns))
    except Exception as e:  # noqa: BLE001
        return {"status": "compile-error", "error": f"{type(e).__name__}: {e}"[:300]}

    def val(name):
        s = str(envv.get(name, 0))
        if trees.VAR_TYPES[name] == "bool":
            return s == "True"
        if trees.VAR_TYPES[name] == "int":
            return int(s)
        return float(Fraction(s))

    args = [val(n) for n in ("x", "y", "u", "v", "p", "q")]
    outs = []
    for k in range(2):
        proto = ctypes.CFUNCTYPE(cty[rts[k]], *[cty[trees.VAR_TYPES[n]] for n in ("x", "y", "u", "v", "p", "q")])
        f = proto(engine.get_function_address(f"f{k}"))
        outs.append(float(f(*args)))
    return {"status": "ok", "original": outs[0], "optimised": outs[1], "differs": outs[0] != outs[1]}


def uses_arrays(e) -> bool:
    if isinstance(e, ir.Variable):
        return e.name in ("ia", "fa")
    return any(uses_arrays(getattr(e, f)) for f in ("left", "right", "expression", "index", "target")
               if hasattr(e, f))


def _parse_tree(text):
    ns = {k: getattr(ir, k) for k in dir(ir) if not k.startswith("_")}
    return eval(text, ns)  # repr() of frozen dataclasses built by this harness


def extra_trees(tier):
    def run(rep, coverage):
        seed = common.seed()
        if not vacuity_twin():
            rep.harness_error("vacuity twin (0 - x => x) was not detected by the tree harness")
        total, per_depth, bad = run_trees(tier, rep, seed)
        confirmed = 0
        samples = []
        inconclusive = []
        narrowing_same_after_wrap = []
        for b in bad:
            if b.get("unknown"):
                if tier == "quick":
                    rep.harness_error(f"solver unknown on tree {b['tree'][:200]}")
                else:
                    inconclusive.append(b["tree"][:200])  # thorough tier: listed, outside the claim
                continue
            t, t2 = _parse_tree(b["tree"]), _parse_tree(b["optimised"])
            rp = replay_expr_c(t, t2, b.get("env", {})) if uses_arrays(t) else replay_expr_llvm(t, t2, b.get("env", {}))
            b["replay"] = rp
            if rp.get("status") == "ok" and rp["differs"]:
                confirmed += 1
                rep.violation({"name": "tree", "kind": b.get("kind", "not-equivalent")},
                              {"property": "C07", "part": "b-expression-trees", **b})
            elif b.get("kind") == "float-to-int-narrowing" and rp.get("status") == "ok":
                # the solver showed that the trees agree once the int32 overflow of the narrowed operation is
                # ignored; on the real (two's complement) back end this instance wraps back to the same value:
                # same family as the known finding F11, not observable here - recorded, as C06 does for benign wraps
                narrowing_same_after_wrap.append({"tree": b["tree"][:200], "env": b.get("env")})
            else:
                rep.harness_error(f"tree counterexample did not reproduce on the real back end: {b['tree'][:200]} {rp}")
            if len(samples) < 4:
                samples.append(b)
        fp_stats, fp_bad = run_fp_exact()
        for b in fp_bad:
            if b.get("unknown"):
                rep.harness_error(f"Float64 query unknown for {b['tree'][:160]}")
            else:
                rep.violation({"name": "fp tree", "kind": "ieee-not-equal"}, {"property": "C07", "part": "b-float64", **b})
        cc_stats, cc_problems = crosscheck_cvc5(25 if tier == "quick" else 120)
        for p in cc_problems:
            rep.harness_error("solver disagreement: " + p)
        st_total, st_bad = run_statements(tier, seed)
        for b in st_bad:
            rep.violation({"name": "statement", "kind": "statement-not-equivalent"},
                          {"property": "C07", "part": "b-statement-trees", **b})
        return {
            "programs": coverage.get("requests_generated", 0) * 3 + total["trees"] + st_total["statements"],
            "disagreements_checked": confirmed + len(st_bad) + coverage.get("violations_found_by_solver", 0),
            "expression_trees": {**total, "solver_s": round(total["solver_s"], 2), "per_depth": per_depth,
                                 "literals": "{0,1,2,0.0,1.0,1.5,true,false}", "variables": "x,y:int u,v:float p,q:bool ia:int[<=3] fa:double[<=3]"},
            "statement_trees": st_total, "float64_exact_rules": fp_stats, "cvc5_crosscheck": cc_stats,
            "tree_counterexample_samples": samples,
            "trees_inconclusive_solver_unknown": inconclusive[:60],
            "narrowing_candidates_equal_after_int32_wrap": narrowing_same_after_wrap[:60],
        }

    return run


def _stmt_worker(args):
    shard, nshards, depth, stride, offset = args
    from tensora.ir._peephole import peephole_statement

    from .. import stmts

    h = stmts.StmtHarness(peephole_statement)
    atoms = stmts.atomic_statements()
    if depth == 1:
        it = iter(atoms)
    elif depth == 2:
        it = stmts.depth2(atoms)
    elif depth == 4:
        it = stmts.skeletons()
    else:
        it = stmts.depth3(atoms, stride, offset)
        stride = 1
    n = changed = 0
    bad = []
    for k, s in enumerate(it):
        if k % nshards != shard:
            continue
        if stride > 1 and (k // nshards) % stride != offset % stride:
            continue
        n += 1
        try:
            r = h.check(s)
        except Exception as e:  # noqa: BLE001
            r = {"statement": repr(s), "why": f"harness: {type(e).__name__}: {e}", "harness": True}
        if r:
            bad.append(r)
            if len(bad) > 10:
                break
    return n, h.stats.asdict(), bad


def run_statements(tier, seed):
    procs = min(16, os.cpu_count() or 1)
    plan = [(1, 1, 0), (2, 4 if tier == "quick" else 1, seed), (4, 1, 0)]  # 4 = control-structure skeletons
    if tier != "quick":
        plan.append((3, 40, seed))
    tot = {"statements": 0, "paths": 0, "queries": 0, "solver_s": 0.0}
    bad_all = []
    ctx = mp.get_context("fork")
    with ctx.Pool(procs) as pool:
        for depth, stride, off in plan:
            for n, st, bad in pool.imap_unordered(_stmt_worker, [(s, procs, depth, stride, off) for s in range(procs)]):
                tot["statements"] += n
                tot["paths"] += st["paths"]
                tot["queries"] += st["queries"]
                tot["solver_s"] += st["solver_s"]
                bad_all += bad
    tot["solver_s"] = round(tot["solver_s"], 2)
    tot["unwinding"] = "original assumed to finish within 3 iterations per loop; optimised asserted to"
    return tot, bad_all


def run(tier):
    variants = [{"mode": "c07", "program": "evaluate"}, {"mode": "c07", "program": "assemble+compute"}]
    return keval.run("C07", tier, families=["equivalence"], worker=kprog.run_task, variants=variants,
                     confirm_fn=confirm_kernel, validate=False, level="translation_validation", quick_corpus="core",
                     functions=["tensora.ir.peephole / peephole_expression / peephole_statement (real functions applied to "
                                "generated modules and to enumerated trees)",
                                "tensora.generate.generate_module_tensora with and without the optimisation pass"],
                     extra=extra_trees(tier),
                     extra_assumptions=["floating point compared over the rationals (numerical equality; sign of zero and rounding "
                                        "of re-associated operations are outside)",
                                        "states in which the original violates an obligation or does not terminate within the "
                                        "unwinding bound are outside the claim (assumed away)"])


def confirm_kernel(rec, families):
    """Replay: concrete IR machine on the unoptimised and the optimised module."""
    from .. import judge, replay
    from ..request import Request, compile_request

    req = Request.make(rec["request"]["assignment"], rec["request"]["formats"])
    out = {"confirmed": False, "where": []}
    if rec["violation"]["kind"] == "pipeline":
        out["confirmed"] = True
        out["where"].append("structural: pipeline output != peephole(unoptimised)")
        return out
    dec = rec["violation"].get("decoded")
    if dec is None:
        return out
    comp0 = compile_request(req, kinds=kprog.KINDS3, optimise=False)
    comp1 = compile_request(req, kinds=kprog.KINDS3, optimise=True)
    progs = [["evaluate"]] if rec.get("program") == "evaluate" else [["assemble", "compute"]]
    for fns in progs:
        r0 = replay.concrete_ir_run(comp0, fns, dec)
        r1 = replay.concrete_ir_run(comp1, fns, dec)
        out.setdefault("runs", []).append({"program": fns, "original": r0.get("violation"), "optimised": r1.get("violation")})
        if r0["violation"] is None and r1["violation"] is not None:
            out["confirmed"] = True
            out["where"].append("ir-machine: optimised violates where original is safe")
        elif r0["violation"] is None and r1["violation"] is None and not judge.same_raw(r0["output"], r1["output"]):
            out["confirmed"] = True
            out["where"].append("ir-machine: outputs differ")
    return out


# ------------------------------------------------------------------ exact IEEE check of the float rules


def fp_meaning(e, env):
    """IEEE-754 binary64 meaning (round-to-nearest-even) of a float-typed tree over float variables
    and literals; None when the tree leaves that fragment."""
    rm = z3.RNE()
    F = z3.Float64()
    if isinstance(e, ir.FloatLiteral):
        return z3.FPVal(e.value, F)
    if isinstance(e, ir.IntegerLiteral):
        return z3.FPVal(float(e.value), F)
    if isinstance(e, ir.Variable):
        if trees.VAR_TYPES.get(e.name) == "float":
            return env.setdefault(e.name, z3.FP(e.name + "_fp", F))
        return None
    if isinstance(e, trees.ARITH):
        a, b = fp_meaning(e.left, env), fp_meaning(e.right, env)
        if a is None or b is None:
            return None
        if isinstance(e, ir.Add):
            return z3.fpAdd(rm, a, b)
        if isinstance(e, ir.Subtract):
            return z3.fpSub(rm, a, b)
        return z3.fpMul(rm, a, b)
    return None


def run_fp_exact():
    """Every depth-1 arithmetic tree over {u, v, 0.0, 1.0, 1.5, 0, 1, 2} that the peephole changes:
    original and optimised agree as IEEE doubles (fp.eq: the sign of zero may differ) for all finite
    inputs.  Queries are Float64 bit-precise."""
    from tensora.ir._peephole import peephole_expression

    leaves = [ir.Variable("u"), ir.Variable("v"), ir.FloatLiteral(0.0), ir.FloatLiteral(1.0), ir.FloatLiteral(1.5),
              ir.IntegerLiteral(0), ir.IntegerLiteral(1), ir.IntegerLiteral(2)]
    n = q = 0
    bad = []
    t0 = time.time()
    for op in trees.ARITH:
        for a in leaves:
            for b in leaves:
                t = op(a, b)
                if trees.type_of(t) != "float":
                    continue
                t2 = peephole_expression(t)
                if t2 == t:
                    continue
                n += 1
                env = {}
                ma, mb = fp_meaning(t, env), fp_meaning(t2, env)
                if ma is None or mb is None:
                    continue
                s = z3.Solver()
                s.set("timeout", 60000)
                for v in env.values():
                    s.add(z3.Not(z3.fpIsNaN(v)), z3.Not(z3.fpIsInf(v)))
                s.add(z3.Not(z3.fpEQ(ma, mb)))
                q += 1
                r = s.check()
                if r == z3.sat:
                    m = s.model()
                    bad.append({"tree": repr(t), "optimised": repr(t2),
                                "env": {k: str(m.eval(v, model_completion=True)) for k, v in env.items()}})
                elif r == z3.unknown:
                    bad.append({"tree": repr(t), "optimised": repr(t2), "unknown": True})
    return {"trees": n, "queries": q, "wall_s": round(time.time() - t0, 1)}, bad


# ------------------------------------------------------------------ second solver


def crosscheck_cvc5(limit=40):
    """The same tree-equivalence queries answered by cvc5 (binary on PATH): verdicts must agree.
    A sample of the depth-2 trees whose claim does not simplify to true (so a real query exists)."""
    import shutil
    import subprocess
    import tempfile

    from tensora.ir._peephole import peephole_expression

    if shutil.which("cvc5") is None:
        return {"skipped": "cvc5 binary not found"}, []
    env = trees.Env()
    lv = trees.leaves()
    pool1 = trees.merge(lv, trees.grow(lv))
    n = agree = unknown = 0
    problems = []
    for k, t in enumerate(trees.grow_iter(pool1)):
        if k % 997 != 0:
            continue
        t2 = peephole_expression(t)
        if t2 == t:
            continue
        ta, a, sa, aa = trees.meaning(t, env)
        try:
            tb, b, sb, ab = trees.meaning(t2, env)
        except (TypeError, KeyError):
            continue
        claim = sym.simp_bool(sym.bimplies(sa, band(sb, trees.values_equal(ta, a, tb, b))))
        if claim is True:
            continue
        s = z3.Solver()
        s.set("timeout", 20000)
        for c in env.pre:
            s.add(c)
        s.add(z3.Not(zb(claim)))
        rz = str(s.check())
        with tempfile.NamedTemporaryFile("w", suffix=".smt2", delete=False) as f:
            f.write("(set-logic ALL)\n" + s.to_smt2())
            path = f.name
        try:
            out = subprocess.run(["cvc5", "--tlimit=20000", path], capture_output=True, text=True, timeout=60)
            rc = out.stdout.strip().splitlines()[0] if out.stdout.strip() else "error"
            if "(error" in out.stdout or out.stderr.strip():
                rc = "error"
        except subprocess.TimeoutExpired:
            rc = "unknown"
        finally:
            os.unlink(path)
        n += 1
        if rc in ("unknown", "error") or rz == "unknown":
            unknown += 1
        elif rc == rz:
            agree += 1
        else:
            problems.append(f"z3 says {rz}, cvc5 says {rc} for {repr(t)[:200]}")
        if n >= limit:
            break
    return {"queries": n, "agree": agree, "inconclusive": unknown}, problems
