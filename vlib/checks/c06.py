"""C06 — the C and LLVM back ends implement the same kernel (and the IR they were printed from).

1. printers on all small typed expression trees: IR meaning vs. meaning of the printed C text
   (parsed by pycparser) vs. meaning of the emitted LLVM function, compared by z3;
   statement trees (assignment sugar, else-if chains, loops, block scoping vs. hoisting) on the
   path-based machine through the IR / C / LLVM front ends;
2. whole kernels: IR, lifted C and parsed LLVM on the same symbolic inputs;
3. tool-chain acceptance of what is emitted;
4. identifier obligations (regular-language queries).
"""

from __future__ import annotations

import multiprocessing as mp
import os
import subprocess
import tempfile
import time

import z3
from tensora.ir import ast as ir
from tensora.ir import types as irt

from .. import backmean, cfront, common, llfront, sym, trees
from ..kse import HarnessError
from ..sym import band, zb

PARAMS = [("x", irt.integer), ("y", irt.integer), ("u", irt.float), ("v", irt.float),
          ("p", irt.boolean), ("q", irt.boolean), ("ia", irt.Pointer(irt.integer)), ("fa", irt.Pointer(irt.float))]
PNAMES = [n for n, _ in PARAMS]
RET = {"int": irt.integer, "float": irt.float, "bool": irt.boolean}


def functions_for(ts):
    fns = []
    for k, t in enumerate(ts):
        rt = trees.type_of(t)
        fns.append(ir.FunctionDefinition(ir.Variable(f"f{k}"),
                                         [ir.Declaration(ir.Variable(n), ty) for n, ty in PARAMS],
                                         RET[rt], ir.Block([ir.Return(t)])))
    return fns


def print_both(ts):
    """Real printers on a batch of trees -> (dict name -> C FuncDef, dict name -> llfront.Function)."""
    from tensora.codegen import ir_to_c, ir_to_llvm

    module = ir.Module(functions_for(ts))
    ctext = ir_to_c(module)
    lltext = str(ir_to_llvm(module))
    return cfront.parse_functions(ctext), llfront.parse_module(lltext), lltext


def llvm_verifier_rejects(lltext):
    """The real LLVM verifier on the emitted text: None, or its message."""
    import llvmlite.binding as llvm

    try:
        llvm.parse_assembly(lltext).verify()
    except Exception as e:  # noqa: BLE001
        return str(e)[:300] or "rejected"
    return None


def has_right_nested(t) -> bool:
    """Some Add has an Add/Subtract as right operand, or some Multiply a Multiply: the C printer
    prints these without parentheses (pinned by tests/codegen/test_ast_to_c.py)."""
    if isinstance(t, ir.Add) and isinstance(t.right, (ir.Add, ir.Subtract)):
        return True
    if isinstance(t, ir.Multiply) and isinstance(t.right, ir.Multiply):
        return True
    return any(has_right_nested(getattr(t, f)) for f in ("left", "right", "expression", "index", "target")
               if hasattr(t, f) and isinstance(getattr(t, f), ir.Expression))


def ring_only(t) -> bool:
    """Only int32 +, -, * over int leaves: a ring expression (overflow wraps homomorphically)."""
    if isinstance(t, ir.IntegerLiteral):
        return True
    if isinstance(t, ir.Variable):
        return trees.VAR_TYPES.get(t.name) == "int"
    if isinstance(t, trees.ARITH):
        return ring_only(t.left) and ring_only(t.right)
    return False


def _backend_meaning(backend, k, cfuncs, llfuncs, env):
    if backend == "c":
        cret = cfuncs[f"f{k}"].body.block_items[0].expr
        ct, cv, cs, ca = backmean.c_meaning(cret, env)
        tb, vb = backmean.norm(ct, cv)
        return tb, vb, cs, ca
    return backmean.ll_meaning(llfuncs[f"f{k}"], env, PNAMES)


def _claim(tI, vI, sI, aI, tb, vb, sb, ab):
    if tb != tI and not (tI == "bool" and tb == "int"):
        return None
    eq = trees.values_equal(tI, vI, tb, vb) if tb == tI else trees.values_equal("int", sym.ite(vI, 1, 0), "int", vb)
    good = band(sb, eq, trees.accesses_contained(ab, aI), trees.accesses_contained(aI, ab))
    return sym.simp_bool(sym.bimplies(sI, good))


def compare_tree(k, t, cfuncs, llfuncs, envs, solver, stats):
    """Compare the three meanings of one tree.  Returns list of findings (dicts)."""
    out = []
    env_r, env_u, env_w, env_n = envs
    ti = trees.type_of(t)

    state = {"model": None}

    def model_env(env):
        m = state["model"]
        envv = {n: str(m.eval(v, model_completion=True)) for n, v in env.vars.items()}
        envv["ia"] = [str(m.eval(z3.Select(env.arrays["ia"][0], i), model_completion=True)) for i in range(3)]
        envv["ia_len"] = str(m.eval(env.arrays["ia"][1], model_completion=True))
        return envv

    def ask(claim):
        if claim is True:
            return z3.unsat
        stats["queries"] += 1
        t0 = time.perf_counter()
        r = solver.check(z3.Not(zb(claim)))
        if r == z3.unknown:
            # the incremental solver's history matters for the resource limit: retry from scratch
            fresh = z3.Solver()
            fresh.set("rlimit", 200000000)
            for c in env_r.pre:
                fresh.add(c)
            r = fresh.check(z3.Not(zb(claim)))
            if r == z3.sat:
                state["model"] = fresh.model()
        elif r == z3.sat:
            state["model"] = solver.model()
        stats["solver_s"] += time.perf_counter() - t0
        return r

    for backend in ("c", "llvm"):
        try:
            tI, vI, sI, aI = trees.meaning(t, env_r)
            tb, vb, sb, ab = _backend_meaning(backend, k, cfuncs, llfuncs, env_r)
        except HarnessError as e:
            out.append({"kind": "harness", "backend": backend, "why": str(e)})
            continue
        except backmean.Malformed as e:
            out.append({"kind": "llvm-malformed", "backend": backend, "why": str(e)})
            continue
        claim = _claim(tI, vI, sI, aI, tb, vb, sb, ab)
        if claim is None:
            out.append({"kind": "type-mismatch", "backend": backend, "ir_type": tI, "backend_type": tb})
            continue
        r = ask(claim)
        if r == z3.unknown:
            out.append({"kind": "unknown", "backend": backend, "mode": "real"})
        elif r == z3.sat:
            envv = model_env(env_r)
            # Is it only an intermediate int32 overflow that two's-complement arithmetic absorbs?
            # (1) concrete witnesses: evaluate the wrapping meanings on models of the first query;
            # (2) pure int ring expressions: equal as polynomials over Z => equal modulo 2^32.
            tI2, vI2, sI2, aI2 = trees.meaning(t, env_w)
            tb2, vb2, sb2, ab2 = _backend_meaning(backend, k, cfuncs, llfuncs, env_w)
            claim2 = _claim(tI2, vI2, band(sI, sI2), aI2, tb2, vb2, sb2, ab2)
            verdict = None
            if claim2 is None or claim2 is False:
                verdict = "differs"
            elif claim2 is True:
                verdict = "benign"
            else:
                solver.push()
                try:
                    for _ in range(6):
                        model = state["model"]
                        if z3.is_false(model.eval(zb(claim2), model_completion=True)):
                            verdict = "differs"
                            envv = model_env(env_r)
                            break
                        # same integers (they cause the overflow), other float values
                        base = [(v, model.eval(v, model_completion=True)) for n, v in env_r.vars.items() if n not in ("u", "v")]
                        for fu, fv in (("1", "3/2"), ("3/2", "1"), ("-1", "2")):
                            sub = base + [(env_r.vars["u"], z3.RealVal(fu)), (env_r.vars["v"], z3.RealVal(fv))]
                            for kk in range(3):
                                sub.append((z3.Select(env_r.arrays["ia"][0], kk), model.eval(z3.Select(env_r.arrays["ia"][0], kk), model_completion=True)))
                            val = z3.simplify(z3.substitute(zb(claim2), *sub))
                            if z3.is_false(val):
                                verdict = "differs"
                                envv = model_env(env_r)
                                envv["u"], envv["v"] = fu, fv
                                break
                        if verdict:
                            break
                        block = z3.Or(*[v != model.eval(v, model_completion=True) for v in env_r.vars.values()])
                        solver.add(block)
                        stats["queries"] += 1
                        if solver.check(z3.Not(zb(claim))) != z3.sat:
                            break
                        state["model"] = solver.model()
                finally:
                    solver.pop()
                if verdict is None and ring_only(t):
                    tI3, vI3, sI3, aI3 = trees.meaning(t, env_n)
                    tb3, vb3, sb3, ab3 = _backend_meaning(backend, k, cfuncs, llfuncs, env_n)
                    claim3 = _claim(tI3, vI3, True, aI3, tb3, vb3, True, ab3)
                    if claim3 is True or (claim3 is not None and claim3 is not False and ask(claim3) == z3.unsat):
                        verdict = "benign"
            if verdict == "benign":
                out.append({"kind": "int-reassociation-benign", "backend": backend, "env": envv})
            elif verdict == "differs":
                out.append({"kind": "meaning-differs", "backend": backend, "mode": "real", "env": envv,
                            "right_nested": has_right_nested(t)})
            else:
                out.append({"kind": "overflow-only-candidate", "backend": backend, "mode": "real", "env": envv,
                            "right_nested": has_right_nested(t)})
        if ti == "float":
            try:
                tI, vI, sI, aI = trees.meaning(t, env_u)
                tb, vb, sb, ab = _backend_meaning(backend, k, cfuncs, llfuncs, env_u)
            except HarnessError as e:
                out.append({"kind": "harness", "backend": backend, "why": str(e)})
                continue
            a, b = trees.rz(vI), trees.rz(vb)
            if a.eq(b):
                continue
            r = ask(sym.simp_bool(sym.bimplies(sI, a == b)))
            if r == z3.sat:
                out.append({"kind": "float-association", "backend": backend, "mode": "uf", "env": model_env(env_u),
                            "right_nested": has_right_nested(t)})
            elif r == z3.unknown:
                out.append({"kind": "unknown", "backend": backend, "mode": "uf"})
    return out


def tree_source(depth):
    lv = trees.leaves()
    if depth == 1:
        return trees.grow_iter(lv)
    pool1 = trees.merge(lv, trees.grow(lv))
    if depth == 2:
        return trees.grow_iter(pool1)
    from .c07 import spine_trees

    return spine_trees(pool1)


def special_trees():
    """Precedence / short-circuit / mixed-type shapes beyond the generic enumeration."""
    from .c07 import array_trees

    x, y, u, v, p, q = (ir.Variable(n) for n in ("x", "y", "u", "v", "p", "q"))
    ia = ir.Variable("ia")
    out = list(array_trees())
    guarded = ir.And(ir.LessThan(x, ir.IntegerLiteral(3)), ir.Equal(ir.ArrayIndex(ia, x), y))
    out += [guarded, ir.Or(ir.GreaterThanOrEqual(x, ir.IntegerLiteral(3)), ir.Equal(ir.ArrayIndex(ia, x), y)),
            ir.And(ir.And(ir.LessThanOrEqual(ir.IntegerLiteral(0), x), ir.LessThan(x, ir.IntegerLiteral(3))),
                   ir.Equal(ir.ArrayIndex(ia, x), y)),
            ir.Subtract(x, ir.Subtract(y, ir.IntegerLiteral(1))), ir.Subtract(x, ir.Add(y, ir.IntegerLiteral(1))),
            ir.Subtract(u, ir.Add(v, ir.FloatLiteral(1.5))), ir.Multiply(ir.Add(x, y), ir.Subtract(x, y)),
            ir.Multiply(u, ir.Multiply(v, ir.FloatLiteral(1.5))), ir.Add(u, ir.Add(v, ir.FloatLiteral(1.5))),
            ir.Add(x, ir.Multiply(u, y)), ir.Multiply(ir.IntegerLiteral(2), ir.Add(u, x)),
            ir.Equal(p, ir.Equal(x, y)), ir.Equal(ir.Equal(x, y), p), ir.NotEqual(p, ir.LessThan(x, y)),
            ir.Equal(ir.Or(p, q), q), ir.Equal(ir.And(p, q), q), ir.Equal(p, ir.And(p, q)),
            ir.Or(ir.And(p, q), ir.And(q, p)), ir.And(ir.Or(p, q), ir.Or(q, p)),
            ir.BooleanToInteger(ir.And(p, ir.Equal(x, y))), ir.Add(ir.BooleanToInteger(p), ir.BooleanToInteger(ir.LessThan(x, y))),
            ir.Min(ir.Add(x, ir.IntegerLiteral(1)), ir.Max(y, ir.IntegerLiteral(0))),
            ir.Multiply(ir.Min(x, y), ir.Max(x, y)), ir.Subtract(ir.IntegerLiteral(0), ir.Min(x, y)),
            ir.Multiply(ir.IntegerLiteral(2147483647), u), ir.Add(ir.FloatLiteral(1e300), u),
            ir.Multiply(ir.IntegerLiteral(3000000000), u), ir.Add(u, ir.IntegerLiteral(4294967296)),
            # desugared subtraction shapes: x + -1 * (...)
            ir.Add(u, ir.Multiply(ir.IntegerLiteral(-1), ir.Add(v, u))),
            ir.Add(u, ir.Multiply(ir.IntegerLiteral(-1), ir.Subtract(v, ir.FloatLiteral(1.5)))),
            ir.Add(x, ir.Multiply(ir.IntegerLiteral(-1), ir.Add(y, ir.IntegerLiteral(1)))),
            ir.Add(x, ir.Multiply(ir.IntegerLiteral(-1), ir.Subtract(y, x))),
            ir.Add(ir.Multiply(ir.IntegerLiteral(-1), u), v), ir.Add(ir.Multiply(ir.IntegerLiteral(-1), x), y),
            ir.Add(ir.Multiply(ir.IntegerLiteral(-1), u), ir.Multiply(ir.IntegerLiteral(-1), v)),
            ir.Multiply(ir.IntegerLiteral(-1), ir.Multiply(u, v)), ir.Subtract(u, ir.Multiply(ir.IntegerLiteral(-1), v)),
            ir.Multiply(ir.BooleanToInteger(ir.LessThan(x, y)), ir.IntegerLiteral(2))]
    # float literals whose shortest round-trip spelling needs 17 significant digits, an exponent, or is a
    # denormal / the largest double: both printers must emit exactly this double
    for val in (0.1 + 0.2, 3.3000000000000003, 1234567.1234567891, 1.0 / 3.0, 2.0 / 3.0, 0.1, 1e-7, 1.5e-5, 123456789012345680.0,
                1e16, 1e22, 1e23, 5e-324, 2.2250738585072014e-308, 1.7976931348623157e308, 9007199254740993.0, 4.35, 0.7):
        out.append(ir.Multiply(u, ir.FloatLiteral(val)))
        out.append(ir.Add(ir.FloatLiteral(val), x))
    return out


def _tree_worker(args):
    shard, nshards, depth, stride, offset = args
    env_r, env_u, env_w, env_n = trees.Env("real"), trees.Env("uf"), trees.Env("real"), trees.Env("real")
    env_w.wrap = True
    env_n.check_overflow = False
    solver = z3.Solver()
    solver.set("rlimit", 20000000)  # deterministic resource limit instead of a wall-clock timeout
    for c in env_r.pre:
        solver.add(c)
    stats = {"trees": 0, "queries": 0, "solver_s": 0.0, "rejected_by_backend": 0, "by_kind": {}}
    findings = []
    batch = []

    def flush():
        if not batch:
            return
        try:
            cf, lf, lltext = print_both(batch)
            bad_module = llvm_verifier_rejects(lltext)
        except Exception as e:  # noqa: BLE001 - a tree one of the printers refuses is not well-typed for C06
            bad_module = "printer"
            del e
        if bad_module is not None:
            # fall back to one-by-one to isolate
            for t in batch:
                try:
                    cf1, lf1, ll1 = print_both([t])
                except Exception:  # noqa: BLE001
                    stats["rejected_by_backend"] += 1
                    continue
                why = llvm_verifier_rejects(ll1)
                if why is not None:
                    # printed by both back ends, but the LLVM verifier rejects the module
                    stats["trees"] += 1
                    stats["by_kind"]["llvm-malformed"] = stats["by_kind"].get("llvm-malformed", 0) + 1
                    if stats["by_kind"]["llvm-malformed"] <= 4:
                        findings.append({"kind": "llvm-malformed", "backend": "llvm", "why": why, "tree": repr(t)})
                    continue
                _handle(0, t, cf1, lf1)
            batch.clear()
            return
        stats["modules_verified"] = stats.get("modules_verified", 0) + 1
        for k, t in enumerate(batch):
            _handle(k, t, cf, lf)
        batch.clear()

    def _handle(k, t, cf, lf):
        stats["trees"] += 1
        for f in compare_tree(k, t, cf, lf, (env_r, env_u, env_w, env_n), solver, stats):
            kind = f["kind"]
            stats["by_kind"][kind] = stats["by_kind"].get(kind, 0) + 1
            if stats["by_kind"][kind] <= 4:
                findings.append({**f, "tree": repr(t)})
        if len(env_r.cache) > 100000:
            env_r.cache.clear()
            env_u.cache.clear()
            env_w.cache.clear()
            env_n.cache.clear()

    src = special_trees() if depth == 0 else tree_source(depth)
    for k, t in enumerate(src):
        if k % nshards != shard:
            continue
        if stride > 1 and (k // nshards) % stride != offset % stride:
            continue
        if trees.type_of(t) not in ("int", "float", "bool"):
            continue
        batch.append(t)
        if len(batch) >= 200:
            flush()
    flush()
    return stats, findings


# ------------------------------------------------------------------ statements through the front ends

SPARAMS = [("x", irt.integer), ("y", irt.integer), ("u", irt.float), ("p", irt.boolean),
           ("ia", irt.Pointer(irt.integer)), ("fa", irt.Pointer(irt.float)),
           ("out", irt.Pointer(irt.integer)), ("fout", irt.Pointer(irt.float))]


def statement_function(stmt, name="f"):
    x, y, u, p = (ir.Variable(n) for n in ("x", "y", "u", "p"))
    out, fout = ir.Variable("out"), ir.Variable("fout")
    tail = [ir.Assignment(ir.ArrayIndex(out, ir.IntegerLiteral(0)), x),
            ir.Assignment(ir.ArrayIndex(out, ir.IntegerLiteral(1)), y),
            ir.Assignment(ir.ArrayIndex(out, ir.IntegerLiteral(2)), ir.BooleanToInteger(p)),
            ir.Assignment(ir.ArrayIndex(fout, ir.IntegerLiteral(0)), u),
            ir.Return(ir.IntegerLiteral(7))]
    return ir.FunctionDefinition(ir.Variable(name), [ir.Declaration(ir.Variable(n), t) for n, t in SPARAMS],
                                 irt.integer, ir.Block([stmt, *tail]))


class StmtBackends:
    """IR vs printed C vs emitted LLVM for one statement program, on the path-based machine."""

    def __init__(self):
        from ..stmts import StmtHarness

        self.h = StmtHarness(lambda s: s)
        self.stats = {"programs": 0, "paths": 0, "rejected": 0}

    def check(self, stmt):
        from tensora.codegen import ir_to_c, ir_to_llvm

        from ..irexec import IRExec
        from ..kse import Infeasible, Machine, Ptr, Violation
        from .. import kassert

        fn = statement_function(stmt)
        try:
            module = ir.Module([fn])
            cf = cfront.parse_functions(ir_to_c(module))["f"]
            lf = llfront.parse_module(str(ir_to_llvm(module)))["f"]
        except HarnessError:
            raise
        except Exception:  # noqa: BLE001 - not accepted by both back ends: not well-typed for C06
            self.stats["rejected"] += 1
            return None
        self.stats["programs"] += 1
        h = self.h
        work = [[]]
        while work:
            prefix = work.pop()
            m = Machine(prefix, solver=h.solver, max_loop_iter=3)
            m.pc = list(h.base)
            h.solver.push()
            try:
                r = self._path(m, fn, cf, lf)
                if r is not None:
                    return r
                self.stats["paths"] += 1
            except Infeasible:
                pass
            finally:
                h.solver.pop()
            work.extend(m.pending)
        return None

    def _arrays(self, m, tag):
        h = self.h
        from ..kse import Ptr

        ib = m.heap.new(f"ia{tag}", "int", 3, base=h.ia, owner="kernel")
        ib.init.all = True
        fb = m.heap.new(f"fa{tag}", "float", 3, base=h.fa, owner="kernel")
        fb.init.all = True
        ob = m.heap.new(f"out{tag}", "int", 3, owner="kernel")
        fo = m.heap.new(f"fout{tag}", "float", 1, owner="kernel")
        args = [h.x, h.y, sym.PW([], h.u), h.p, Ptr(ib.bid, 0), Ptr(fb.bid, 0), Ptr(ob.bid, 0), Ptr(fo.bid, 0)]
        return args, (ib, fb, ob, fo)

    def _path(self, m, fn, cf, lf):
        from ..irexec import IRExec
        from ..kse import Infeasible, Violation
        from .. import kassert

        h = self.h
        args0, blocks0 = self._arrays(m, 0)
        m.assume_mode = True
        try:
            r0 = IRExec(m).run(fn, args0)
        except Violation:
            raise Infeasible()
        m.assume_mode = False
        results = []
        for tag, runner in (("c", lambda a: cfront.CExec(m).run(cf, a)), ("llvm", lambda a: llfront.LLExec(m).run(lf, a))):
            args, blocks = self._arrays(m, tag)
            try:
                r = runner(args)
                m.flush_obligations()
            except Violation as v:
                return self._cex(m, fn, tag, f"{tag} text violates where the IR is safe: {v.kind} {v.label}", v.model)
            conds = [(sym.icmp("==", r0, r), ("return value differs", tag))]
            for b0, b1 in zip(blocks0, blocks):
                n = b0.length
                for k in range(n):
                    i0, i1 = b0.init.cond(k), b1.init.cond(k)
                    if sym.simp_bool(i0) is True:
                        conds.append((sym.simp_bool(i1), ("cell not written by " + tag, b0.name, k)))
                        conds.append((h._eq(m, m.read_cell(b0, k), m.read_cell(b1, k)), ("cell differs in " + tag, b0.name, k)))
            try:
                kassert.discharge(m, conds, "differs")
            except Violation as v:
                return self._cex(m, fn, tag, str(v.label), v.model)
            results.append(r)
        return None

    def _cex(self, m, fn, backend, why, model):
        h = self.h
        if model is None:
            m.check()
            model = m.solver.model()
        env = {k: str(model.eval(v, model_completion=True)) for k, v in
               {"x": h.x, "y": h.y, "u": h.u, "p": h.p}.items()}
        env["ia"] = [str(model.eval(z3.Select(h.ia, k), model_completion=True)) for k in range(3)]
        return {"statement": repr(fn.body.statements[0]), "backend": backend, "why": why, "env": env}


def extra_statements():
    """Shapes aimed at the printers: every assignment sugar form, else-if chains, nested blocks with
    declarations (hoisting vs block scope), loops."""
    from ..stmts import FA, I0, I1, I2, IA, P, U, X, Y

    z = ir.Variable("z")
    zd = ir.Declaration(z, irt.integer)
    out = []
    for tgt in (X, ir.ArrayIndex(IA, I0)):
        for e in (I1, I2, Y, ir.Add(Y, I1), ir.Subtract(Y, I1)):
            out.append(ir.Assignment(tgt, ir.Add(tgt, e)))
            out.append(ir.Assignment(tgt, ir.Subtract(tgt, e)))
            out.append(ir.Assignment(tgt, ir.Multiply(tgt, e)))
            out.append(ir.Assignment(tgt, ir.Add(e, tgt)))
            out.append(ir.Assignment(tgt, ir.Subtract(e, tgt)))
    out.append(ir.Assignment(U, ir.Add(U, I1)))
    out.append(ir.Assignment(U, ir.Multiply(U, ir.Add(Y, I1))))
    out.append(ir.Assignment(U, ir.Subtract(U, ir.Subtract(U, ir.FloatLiteral(1.5)))))
    out.append(ir.Assignment(ir.ArrayIndex(FA, I0), ir.Add(ir.ArrayIndex(FA, I0), ir.Multiply(U, X))))
    out.append(ir.Assignment(ir.ArrayIndex(FA, I1), I0))
    out.append(ir.Assignment(U, X))
    c1, c2, c3 = ir.Equal(X, I0), ir.Equal(X, I1), ir.LessThan(X, Y)
    a1, a2, a3, a4 = (ir.Assignment(Y, ir.IntegerLiteral(k)) for k in (10, 20, 30, 40))
    out.append(ir.Branch(c1, a1, ir.Branch(c2, a2, ir.Branch(c3, a3, a4))))
    out.append(ir.Branch(c1, ir.Branch(c2, a1, a2), a3))
    out.append(ir.Branch(c1, ir.Block([ir.Branch(c3, a1, ir.Block([]))]), a2))
    out.append(ir.Branch(c1, ir.Block([]), a2))
    out.append(ir.Block([ir.DeclarationAssignment(zd, ir.Add(X, I1)), ir.Assignment(Y, z)]))
    out.append(ir.Block([ir.Branch(c3, ir.Block([ir.DeclarationAssignment(zd, I1), ir.Assignment(Y, z)]),
                                   ir.Block([ir.DeclarationAssignment(zd, I2), ir.Assignment(Y, z)]))]))
    out.append(ir.Block([ir.DeclarationAssignment(zd, I0),
                         ir.Loop(ir.LessThan(z, I2), ir.Block([ir.Assignment(X, ir.Add(X, Y)), ir.Assignment(z, ir.Add(z, I1))]))]))
    out.append(ir.Block([zd, ir.Assignment(z, X), ir.Assignment(Y, ir.Multiply(z, I2))]))
    out.append(ir.Loop(ir.And(ir.LessThan(X, I2), ir.NotEqual(ir.ArrayIndex(IA, X), I0)), ir.Assignment(X, ir.Add(X, I1))))
    out.append(ir.Loop(ir.Or(ir.LessThan(X, I0), P), ir.Block([ir.Assignment(X, ir.Add(X, I1)), ir.Assignment(P, ir.BooleanLiteral(False))])))
    out.append(ir.Block([ir.Assignment(ir.ArrayIndex(IA, ir.Min(X, I2)), ir.Max(Y, I0))]))
    # allocation sizes: n elements for every n in [0, 2^31-1]
    out.append(ir.Assignment(FA, ir.ArrayAllocate(irt.float, X)))
    out.append(ir.Assignment(IA, ir.ArrayAllocate(irt.integer, X)))
    return out


def _stmt_worker(args):
    shard, nshards, depth, stride, offset = args
    from .. import stmts

    sb = StmtBackends()
    atoms = stmts.atomic_statements()
    if depth == 0:
        it = iter(extra_statements())
    elif depth == 1:
        it = iter(atoms)
    elif depth == 3:
        it = stmts.skeleton_structures()
    elif depth == 5:
        it = stmts.skeleton_flags()
    elif depth == 6:
        it = stmts.skeleton_returns()
    else:
        it = stmts.depth2(atoms)
    bad = []
    for k, s in enumerate(it):
        if k % nshards != shard:
            continue
        if stride > 1 and (k // nshards) % stride != offset % stride:
            continue
        try:
            r = sb.check(s)
        except HarnessError as e:
            r = {"statement": repr(s), "why": f"harness: {e}", "harness": True}
        if r:
            bad.append(r)
            if len(bad) > 10:
                break
    return sb.stats, bad


# ------------------------------------------------------------------ real back ends (confirmation)

ROUNDING_TABLE = [0.1, 0.2, 0.3, 0.7, 1e16, 1.0, 3.0, 1.0 / 3.0, 1e-17, 2.5]


def real_backends_expr(t, env_values_list):
    """Evaluate one tree through gcc-compiled C text and through the LLVM JIT (real printers).
    Returns list of (c_value, llvm_value) per environment."""
    import ctypes

    from tensora.codegen import ir_to_c
    from tensora.compile._compile_llvm import compile_module

    rt = trees.type_of(t)
    if any(isinstance(x, ir.Variable) and x.name in ("ia", "fa") for x in _walk(t)):
        return None
    pnames = [n for n in PNAMES if n not in ("ia", "fa")]
    params = [ir.Declaration(ir.Variable(n), ty) for n, ty in PARAMS if n in pnames]
    fn = ir.FunctionDefinition(ir.Variable("f0"), params, RET[rt], ir.Block([ir.Return(t)]))
    module = ir.Module([fn])
    cty = {"int": ctypes.c_int32, "float": ctypes.c_double, "bool": ctypes.c_bool}
    sig = [cty[trees.VAR_TYPES[n]] for n in pnames]
    engine = compile_module(module)
    fl = ctypes.CFUNCTYPE(cty[rt], *sig)(engine.get_function_address("f0"))
    ctext = ir_to_c(module)
    define, _types = cfront.headers()
    with tempfile.TemporaryDirectory(prefix="verif_c06_") as td:
        src = os.path.join(td, "f.c")
        with open(src, "w") as f:
            f.write("#include <stdint.h>\n#include <stdbool.h>\n" + define + "\n" + ctext + "\n")
        so = os.path.join(td, "f.so")
        cp = subprocess.run(["gcc", "-std=gnu11", "-O0", "-fwrapv", "-shared", "-fPIC", "-w", src, "-o", so],
                            capture_output=True, text=True)
        if cp.returncode != 0:
            return None
        lib = ctypes.CDLL(so)
        fc = lib.f0
        fc.restype = cty[rt]
        fc.argtypes = sig
        out = []
        for ev in env_values_list:
            args = [ev[n] for n in pnames]
            out.append((fc(*args), fl(*args)))
        return out


def _walk(e):
    yield e
    for f in ("left", "right", "expression", "index", "target"):
        if hasattr(e, f) and isinstance(getattr(e, f), ir.Expression):
            yield from _walk(getattr(e, f))


def has_big_literal(t):
    return any(isinstance(x, ir.IntegerLiteral) and not (sym.INT_MIN <= x.value <= sym.INT_MAX) for x in _walk(t))


def env_from_model(envv):
    from fractions import Fraction

    out = {}
    for n in ("x", "y"):
        out[n] = int(envv.get(n, 0))
    for n in ("u", "v"):
        out[n] = float(Fraction(str(envv.get(n, 0))))
    for n in ("p", "q"):
        out[n] = str(envv.get(n)) == "True"
    return out


def rounding_envs():
    import itertools

    out = []
    for (u, v), (x, y) in itertools.product(itertools.permutations(ROUNDING_TABLE[:6], 2), [(1, 3), (7, 2)]):
        out.append({"x": x, "y": y, "u": u, "v": v, "p": True, "q": False})
    # signed zeros: x + 0.0, 0.0 - x, -1 * x differ only in the sign of a zero result
    for u, v in [(0.0, 0.0), (0.0, 1.5), (1.5, 0.0), (-0.0, 0.0), (0.0, -0.0), (-0.0, -0.0), (-0.0, 1.5), (1.5, -0.0)]:
        out.append({"x": 0, "y": 0, "u": u, "v": v, "p": True, "q": False})
        out.append({"x": 1, "y": 3, "u": u, "v": v, "p": True, "q": False})
    return out


def confirm_tree_finding(f):
    """Run the real back ends on the counterexample; bitwise different results confirm it."""
    t = eval(f["tree"], {k: getattr(ir, k) for k in dir(ir) if not k.startswith("_")})  # repr of our own tree
    if f["kind"] == "llvm-malformed" and f.get("backend") == "c":
        # an ill-formed C constant: the real back ends must then disagree on some input
        try:
            envs0 = rounding_envs()[:6]
            res0 = real_backends_expr(t, envs0)
        except Exception as e:  # noqa: BLE001
            return {"confirmed": False, "error": f"{type(e).__name__}: {e}"[:200]}
        for ev, (cv, lv) in zip(envs0, res0 or []):
            if cv != lv or struct_bits(cv) != struct_bits(lv):
                return {"confirmed": True, "env": ev, "c": repr(cv), "llvm": repr(lv)}
        return {"confirmed": False, "note": "the real back ends agree"}
    if f["kind"] == "llvm-malformed":
        # replay = the real LLVM verifier on the real module
        import llvmlite.binding as llvm
        from tensora.codegen import ir_to_llvm

        try:
            llvm.parse_assembly(str(ir_to_llvm(ir.Module(functions_for([t]))))).verify()
        except Exception as e:  # noqa: BLE001
            return {"confirmed": True, "llvm_verifier": str(e)[:300]}
        return {"confirmed": False, "note": "the LLVM verifier accepts the module"}
    envs = [env_from_model(f["env"])] if f.get("env") else []
    if f["kind"] == "float-association":
        envs = envs + rounding_envs()
    try:
        res = real_backends_expr(t, envs)
    except Exception as e:  # noqa: BLE001
        return {"confirmed": False, "error": f"{type(e).__name__}: {e}"[:200]}
    if res is None:
        return {"confirmed": False, "note": "tree not replayable (arrays)"}
    for ev, (c, l) in zip(envs, res):
        same = (c == l) and (struct_bits(c) == struct_bits(l))
        if not same:
            return {"confirmed": True, "env": ev, "c": c, "llvm": l}
    return {"confirmed": False, "tried": len(envs)}


def struct_bits(x):
    import struct as _s

    if isinstance(x, float):
        return _s.pack("<d", x)
    return x


# ------------------------------------------------------------------ tool chain, identifiers


def toolchain_accepts(comp):
    """gcc -fsyntax-only on published header + emitted C; llvmlite verify on the emitted module."""
    import llvmlite.binding as llvm
    from tensora.codegen import ir_to_c, ir_to_llvm

    probs = []
    define, types = cfront.headers()
    ctext = ir_to_c(comp.module)
    src = "#include <stdint.h>\n#include <stdlib.h>\n#include <stdbool.h>\n" + define + types.replace("void free(void *ptr);", "") + ctext + "\n"
    p = subprocess.run(["gcc", "-std=c11", "-fsyntax-only", "-Wall", "-Wno-unused-variable", "-Werror=implicit-function-declaration",
                        "-x", "c", "-"], input=src, capture_output=True, text=True)
    if p.returncode != 0:
        probs.append("C rejected: " + p.stderr[-400:])
    try:
        mod = llvm.parse_assembly(str(ir_to_llvm(comp.module)))
        mod.verify()
    except Exception as e:  # noqa: BLE001
        probs.append(f"LLVM rejected: {e}"[:400])
    return probs


C_RESERVED = ["auto", "break", "case", "char", "const", "continue", "default", "do", "double", "else", "enum",
              "extern", "float", "for", "goto", "if", "inline", "int", "long", "register", "restrict", "return",
              "short", "signed", "sizeof", "static", "struct", "switch", "typedef", "union", "unsigned", "void",
              "volatile", "while", "bool", "true", "false", "malloc", "realloc", "free", "evaluate", "assemble",
              "compute", "main", "NULL"]


def identifier_obligations(rep):
    """(a) L(name regex) must not contain a C keyword / header name / callee / kernel name;
    (b) generated-name templates must not collide with user names."""
    from ..rex import to_z3
    from .c12 import live_patterns

    name_re = to_z3(live_patterns()["name"])
    s = z3.String("s")
    sv = z3.Solver()
    sv.set("timeout", 20000)
    sv.add(z3.InRe(s, name_re))
    sv.add(z3.Or(*[s == z3.StringVal(w) for w in C_RESERVED]))
    hits = []
    queries = 0
    while len(hits) < 60:
        queries += 1
        r = sv.check()
        if r == z3.unknown:
            rep.harness_error("string solver unknown in identifier obligation")
            break
        if r == z3.unsat:
            break
        w = sv.model()[s].as_string()
        hits.append(w)
        sv.add(s != z3.StringVal(w))
    # (b) templates from the real name functions: user names cannot contain '_' today
    from tensora.iteration_graph import _names

    probe = [_names.dimension_name("I").name, _names.pos_name("T", 7).name, _names.crd_name("T", 7).name,
             _names.vals_name("T").name, _names.layer_pointer("R", 7).name, _names.written_name("T", 7).name]
    sv2 = z3.Solver()
    sv2.set("timeout", 20000)
    t = z3.String("t")
    sv2.add(z3.InRe(t, name_re))
    sv2.add(z3.Contains(t, z3.StringVal("_")))
    queries += 1
    collide = sv2.check()
    generated_all_have_underscore = all("_" in p for p in probe)
    return {"reserved_words_admitted_as_names": hits, "queries": queries,
            "user_names_can_contain_underscore": str(collide),
            "generated_names_all_contain_underscore": generated_all_have_underscore, "probe": probe}


def confirm_identifier(word):
    """Generate and compile a request that uses ``word`` as a tensor name."""
    from ..request import Request, compile_request

    req = Request.make(f"{word}(i) = B(i)", {word: "d", "B": "d"})
    try:
        comp = compile_request(req)
    except Exception as e:  # noqa: BLE001
        return {"confirmed": True, "why": f"generation raised {type(e).__name__}"}
    if comp.refusal:
        return {"confirmed": False, "why": comp.refusal}
    probs = toolchain_accepts(comp)
    return {"confirmed": bool(probs), "problems": probs[:1]}


# ------------------------------------------------------------------ kernels


def confirm_kernel(rec, families):
    """Real back ends: evaluate_cffi vs evaluate_tensora on the decoded structure with
    rounding-sensitive values; bitwise different vals (or different structure) confirm."""
    from .. import replay
    from ..request import Request, compile_request, has_broadcast_target

    req = Request.make(rec["request"]["assignment"], rec["request"]["formats"])
    comp = compile_request(req)
    out = {"confirmed": False, "where": []}
    dec = rec["violation"].get("decoded")
    if dec is None or has_broadcast_target(comp.assignment):
        return out
    import copy

    def valued(mode):
        """Rounding-sensitive values, all +0.0, or zeros alternating with rounding-sensitive values (a result that
        differs only in the sign of a zero needs zero operands)."""
        d2 = copy.deepcopy(dec)
        k = 0
        for name, t in d2["inputs"].items():
            vals = []
            for _ in t["vals"]:
                v = ROUNDING_TABLE[k % len(ROUNDING_TABLE)]
                if mode == "zeros" or (mode == "mixed" and k % 2 == 0):
                    v = 0.0
                if mode == "negative zeros" or (isinstance(mode, tuple) and mode[1] == name):
                    vals.append("-0.0")  # token understood by replay.real_run (a Fraction has no signed zero)
                elif isinstance(mode, tuple):
                    vals.append("0")
                else:
                    vals.append(str(__import__("fractions").Fraction(float(v))))
                k += 1
            t["vals"] = vals
        return d2

    # ("-0.0 in", T): tensor T holds negative zeros, the others positive zeros
    for mode in ["rounding", "zeros", "mixed", "negative zeros"] + [("-0.0 in", n) for n in dec["inputs"]]:
        dv = valued(mode)
        a = replay.real_run(req, dv, backend="llvm")
        b = replay.real_run(req, dv, backend="cffi")
        out["llvm"] = a.get("status")
        out["cffi"] = b.get("status")
        if a["status"] == "ok" and b["status"] == "ok":
            oa, ob = a["output"], b["output"]
            if oa["indices"] != ob["indices"] or [struct_bits(x) for x in oa["vals"]] != [struct_bits(x) for x in ob["vals"]]:
                out["confirmed"] = True
                out["where"].append(f"evaluate_cffi and evaluate_tensora return different bits ({mode} values)")
                out["llvm_vals"] = [repr(x) for x in oa["vals"]]
                out["cffi_vals"] = [repr(x) for x in ob["vals"]]
                out["inputs"] = dv["inputs"]
                break
        elif a["status"] != b["status"]:
            out["confirmed"] = True
            out["where"].append(f"back ends behave differently: llvm {a['status']}, cffi {b['status']}")
            break
    dec = valued("rounding")
    # sanitizer builds of both emitted texts (gcc for the C text, clang for the LLVM module)
    from .. import kprog

    comp3 = compile_request(req, kinds=kprog.KINDS3)
    fns = ["evaluate"] if rec.get("program") in (None, "evaluate") else ["assemble", "compute"]
    sc = replay.asan_run(comp3, fns, dec)
    sl = replay.asan_run_llvm(comp3, fns, dec)
    out["asan_c"] = sc["status"]
    out["asan_llvm"] = sl["status"]
    bad = ("sanitizer", "crash", "timeout", "compile-error")
    if (sc["status"] in bad) != (sl["status"] in bad):
        out["confirmed"] = True
        out["where"].append(f"sanitizer builds differ: C {sc['status']}, LLVM {sl['status']}")
        out["asan_stderr"] = (sc.get("stderr", "") + sl.get("stderr", ""))[-600:]
    elif sc["status"] == "ok" and sl["status"] == "ok":
        oc, ol = sc["output"], sl["output"]
        if oc["indices"] != ol["indices"] or [struct_bits(x) for x in oc["vals"]] != [struct_bits(x) for x in ol["vals"]]:
            out["confirmed"] = True
            out["where"].append("sanitizer builds of the C text and the LLVM module return different bits")
    return out


def confirm_kernel_values(rec):
    """Replay a value counterexample (exact rationals) on both real back ends: gcc-compiled C text via
    evaluate_cffi and the LLVM JIT; different values confirm."""
    from .. import replay
    from ..request import Request, compile_request, has_broadcast_target

    req = Request.make(rec["request"]["assignment"], rec["request"]["formats"])
    comp = compile_request(req)
    out = {"confirmed": False, "where": []}
    dec = rec["violation"].get("decoded")
    if dec is None or has_broadcast_target(comp.assignment):
        return out
    a = replay.real_run(req, dec, backend="llvm")
    b = replay.real_run(req, dec, backend="cffi")
    out["llvm"], out["cffi"] = a.get("status"), b.get("status")
    if a["status"] == "ok" and b["status"] == "ok":
        if a["output"]["indices"] != b["output"]["indices"] or a["output"]["vals"] != b["output"]["vals"]:
            out["confirmed"] = True
            out["where"].append("evaluate_cffi and evaluate_tensora return different values")
            out["llvm_vals"], out["cffi_vals"] = a["output"]["vals"], b["output"]["vals"]
    elif a["status"] != b["status"]:
        out["confirmed"] = True
        out["where"].append(f"llvm {a['status']}, cffi {b['status']}")
    return out


def kernel_has_right_nested(fn) -> bool:
    def walk(s):
        if isinstance(s, ir.Block):
            return any(walk(x) for x in s.statements)
        if isinstance(s, ir.Branch):
            return has_right_nested(s.condition) or walk(s.if_true) or walk(s.if_false)
        if isinstance(s, ir.Loop):
            return has_right_nested(s.condition) or walk(s.body)
        if isinstance(s, (ir.Assignment, ir.DeclarationAssignment)):
            return has_right_nested(s.value)
        if isinstance(s, ir.Return):
            return has_right_nested(s.value)
        return False

    return walk(fn.body)


KERNEL_REQUESTS_EXTRA = [
    ("a(i) = b(i) - (c(i) + d(i))", {"a": "s", "b": "s", "c": "s", "d": "d"}),
    ("a(i) = b(i) - (c(i) - d(i))", {"a": "d", "b": "d", "c": "s", "d": "s"}),
    ("a(i) = b(i) - c(i)", {"a": "s", "b": "s", "c": "s"}),
    ("a(i) = b(i) * (c(i) * d(i))", {"a": "s", "b": "s", "c": "s", "d": "d"}),
    ("a(i) = b(i) + (c(i) + d(i))", {"a": "d", "b": "d", "c": "s", "d": "d"}),
]


def run(tier):
    from .. import corpus, kprog, ksweep
    from ..request import Request, compile_request
    from . import keval

    t0 = time.time()
    seed = common.seed()
    rep = common.Reporter("C06")
    procs = min(16, os.cpu_count() or 1)
    ctx = mp.get_context("fork")
    # ---- 1a expression trees
    plans = [(0, 1), (1, 1), (2, 20 if tier == "quick" else 1)] + ([(3, 60)] if tier != "quick" else [])
    tree_stats = {}
    findings = []
    with ctx.Pool(procs) as pool:
        for depth, stride in plans:
            agg = {"trees": 0, "queries": 0, "solver_s": 0.0, "rejected_by_backend": 0, "by_kind": {}}
            for st, fs in pool.imap_unordered(_tree_worker, [(s, procs, depth, stride, seed) for s in range(procs)]):
                for k in ("trees", "queries", "solver_s", "rejected_by_backend"):
                    agg[k] += st[k]
                agg["modules_accepted_by_llvm_verifier"] = agg.get("modules_accepted_by_llvm_verifier", 0) + st.get("modules_verified", 0)
                for k, v in st["by_kind"].items():
                    agg["by_kind"][k] = agg["by_kind"].get(k, 0) + v
                findings += [dict(f, depth=depth) for f in fs]
            agg["solver_s"] = round(agg["solver_s"], 2)
            agg["stride"] = stride
            tree_stats[str(depth)] = agg
        phase = {"trees_s": round(time.time() - t0, 1)}
        # ---- 1b statements
        stmt_stats = {"programs": 0, "paths": 0, "rejected": 0}
        stmt_bad = []
        # 3 = control-structure skeletons (every nesting of block / if / if-else / else-only up to 4 leaves);
        # 5 = the flag-decorated skeletons (thorough: the back ends do not interpret flags); 6 = early returns and loops
        for depth, stride in [(0, 1), (1, 1), (2, 6 if tier == "quick" else 1), (3, 1), (6, 3 if tier == "quick" else 1)] + ([(5, 1)] if tier != "quick" else []):
            for st, bad in pool.imap_unordered(_stmt_worker, [(s, procs, depth, stride, seed) for s in range(procs)]):
                for k in stmt_stats:
                    stmt_stats[k] += st[k]
                stmt_bad += bad
    confirmed_samples = []
    unconfirmed_overflow_only = []
    n_confirm = {}
    disagreements_checked = 0
    for f in findings:
        kind = f["kind"]
        if kind == "int-reassociation-benign":
            continue
        if kind in ("harness", "unknown"):
            rep.harness_error(f"tree {f['tree'][:160]}: {kind} {f.get('why', '')} {f.get('mode', '')}")
            continue
        t = eval(f["tree"], {k: getattr(ir, k) for k in dir(ir) if not k.startswith("_")})
        if has_big_literal(t):
            kind = "integer-literal-out-of-int32"
        elif f["backend"] == "c" and f.get("right_nested"):
            kind = "c-printer-right-nested-" + ("rounding" if f["kind"] == "float-association" else "promotion")
        key = (kind, f["backend"])
        n_confirm[key] = n_confirm.get(key, 0) + 1
        if n_confirm[key] > 3:
            continue
        conf = confirm_tree_finding(f)
        disagreements_checked += 1
        doc = {"property": "C06", "part": "1-expression-trees", **f, "classified": kind, "confirmation": conf}
        if conf.get("confirmed"):
            rep.violation({"name": "tree " + f["tree"][:60], "kind": kind, "backend": f["backend"]}, doc)
            if len(confirmed_samples) < 4:
                confirmed_samples.append(doc)
        elif f["kind"] == "float-association":
            pass  # structural candidate without an observed bit difference: recorded, not a violation
        elif f["kind"] == "overflow-only-candidate" and f.get("right_nested") and f["backend"] == "c":
            unconfirmed_overflow_only.append(f["tree"][:200])  # same dropped parentheses; differs only via int32 wrap
        else:
            rep.harness_error(f"tree counterexample did not reproduce on the real back ends: {f['tree'][:160]} {conf}")
    for b in stmt_bad:
        if b.get("harness"):
            rep.harness_error(f"statement {b['statement'][:160]}: {b['why']}")
            continue
        kind = "statement-differs"
        if "allocation byte count wraps" in b["why"] and b["backend"] == "llvm":
            kind = "allocation-size-wraps"
        disagreements_checked += 1
        if kind == "allocation-size-wraps":
            b["replay"] = "not replayed: needs an allocation of >= 4 GiB"
            rep.violation({"name": "statement", "kind": kind, "backend": b["backend"]},
                          {"property": "C06", "part": "1-statement-trees", **b})
            continue
        try:
            rp = replay_statement(b)
        except Exception as e:  # noqa: BLE001
            rp = {"differs": False, "error": f"{type(e).__name__}: {e}"[:200]}
        b["replay"] = rp
        if rp.get("differs"):
            rep.violation({"name": "statement", "kind": kind, "backend": b["backend"]},
                          {"property": "C06", "part": "1-statement-trees", **b})
        else:
            rep.harness_error(f"statement counterexample did not reproduce on the real back ends: {b['statement'][:160]} {rp}")
    phase["statements_and_replays_s"] = round(time.time() - t0 - phase["trees_s"], 1)
    t_k = time.time()
    # ---- 2 kernels
    reqs = corpus.quick_requests()
    if tier == "quick":
        # the back ends see statements, not expression shapes: a fifth of the <= 3-operand expression sweep is enough here
        reqs = corpus.quick_requests(expressions=False)[::3] + corpus.expression_sweep_requests(four_leaves=False)[::5]
    else:
        reqs = corpus.thorough_requests(seed, per_shape=6, per_shape3=3)
    reqs = reqs + [Request.make(a, f) for a, f in KERNEL_REQUESTS_EXTRA]
    D, N = (2, 2)
    tasks = ksweep.build_tasks(reqs, D, N, ["backends"], "corners", 8000, 400)
    tasks = [{**t, "mode": "c06", "program": p} for t in tasks for p in ("evaluate", "assemble+compute")]
    wall_budget = None if tier == "quick" else int(os.environ.get("VERIF_THOROUGH_BUDGET_S", "2400"))
    results = ksweep.run_tasks(tasks, worker=kprog.run_task, wall_budget=wall_budget)
    kagg = {"paths": 0, "decisions": 0, "queries": 0, "solver_s": 0.0}
    generated = set()
    refused = 0
    ksamples = []
    kviol = 0
    structural_only = []
    structural_not_replayed = {}
    kernel_over_budget = []

    def _vals_differ(r):
        label = r["violation"]["label"]
        return r["violation"]["kind"] == "mismatch" and isinstance(label, list) and "vals differ" in label

    def _tkey(r):
        return (r["request"]["assignment"], tuple(sorted(r["request"]["formats"].items())), tuple(sorted(r["dimvec"].items())),
                r.get("program"))

    # a structural (uninterpreted fadd/fmul) difference: is it also a difference over the reals?  Decided for
    # *every* such counterexample (in parallel) with the exact rational algebra, so that a real value difference
    # cannot hide among rounding-only candidates.
    exact_tasks = [{"assignment": r["request"]["assignment"], "formats": r["request"]["formats"], "dimvec": r["dimvec"],
                    "N": r["N"], "mode": "c06", "program": r.get("program"), "falg": "pw", "max_paths": 8000, "time_budget": 400}
                   for r in results if r["status"] == "violation" and _vals_differ(r)]
    exact_by_key = {_tkey(x): x for x in ksweep.run_tasks(exact_tasks, worker=kprog.run_task, wall_budget=wall_budget)} if exact_tasks else {}
    n_structural_replayed = {}
    for r in sorted(results, key=lambda r: r.get("wall_s", 0)):
        key = r["request"]["assignment"] + " | " + ",".join(f"{k}:{v}" for k, v in r["request"]["formats"].items())
        for k in kagg:
            kagg[k] += r.get("stats", {}).get(k, 0)
        if r["status"] == "refused":
            refused += 1
            continue
        generated.add(key)
        if r["status"] == "harness-error":
            rep.harness_error(f"{key}: {r.get('error', '')[:300]}")
        elif r["status"] == "budget":
            if tier == "quick":
                rep.harness_error(f"{key}: budget")
            else:
                kernel_over_budget.append(key)
        elif r["status"] == "violation":
            kviol += 1
            comp = compile_request(Request.make(r["request"]["assignment"], r["request"]["formats"]), kinds=kprog.KINDS3)
            label = r["violation"]["label"]
            backend = (r["violation"].get("detail") or {}).get("backend") or (label[0] if isinstance(label, list) and label and label[0] in ("c", "llvm") else None)
            kind = r["violation"]["kind"]
            if _vals_differ(r) and backend == "c" and any(kernel_has_right_nested(fn) for fn in comp.functions.values()):
                kind = "c-printer-right-nested-rounding"
            exact = exact_by_key.get(_tkey(r)) if _vals_differ(r) else None
            if _vals_differ(r) and exact is None:
                # the exact-value stage was cut by the wall budget: undecided, listed as not covered
                if tier == "quick":
                    rep.harness_error(f"{key}: exact-value stage did not run")
                else:
                    kernel_over_budget.append(key)
                continue
            if exact is not None and exact["status"] in ("harness-error", "budget"):
                if tier == "quick":
                    rep.harness_error(f"{key}: exact-value stage {exact['status']} {exact.get('error', '')[:200]}")
                else:
                    kernel_over_budget.append(key)
                continue
            if exact is not None and exact["status"] == "violation":
                # exact rational values differ: replay the solver's own inputs
                if len(rep.violations) >= keval.MAX_CONFIRM:
                    continue
                conf = confirm_kernel_values(exact)
                disagreements_checked += 1
                doc = {"property": "C06", "part": "2-kernels", "request": r["request"], "dimvec": r["dimvec"],
                       "program": r.get("program"), "violation": exact["violation"], "classified": "meaning-differs",
                       "confirmation": conf}
                if conf["confirmed"]:
                    rep.violation({"name": key, "kind": "kernel-meaning-differs", "backend": backend, "request": key}, doc)
                else:
                    rep.harness_error(f"kernel value counterexample did not reproduce on the real back ends: {key}")
                continue
            structural = _vals_differ(r) and exact is not None and exact["status"] == "ok"
            if structural:
                # same values over the rationals: replay a few per kind on the real back ends (rounding inputs)
                ck = (kind, backend)
                n_structural_replayed[ck] = n_structural_replayed.get(ck, 0) + 1
                if n_structural_replayed[ck] > 4:
                    structural_not_replayed[str(ck)] = structural_not_replayed.get(str(ck), 0) + 1
                    continue
            elif kviol > 3 * keval.MAX_CONFIRM:
                continue
            conf = confirm_kernel(r, None)
            disagreements_checked += 1
            doc = {"property": "C06", "part": "2-kernels", "request": r["request"], "dimvec": r["dimvec"],
                   "program": r.get("program"), "violation": r["violation"], "classified": kind, "confirmation": conf}
            if conf["confirmed"]:
                rep.violation({"name": key, "kind": kind, "backend": backend, "request": key}, doc)
            elif structural:
                # same values over the rationals and no bit difference observed on the real back ends:
                # a structural candidate only, recorded, not a violation
                structural_only.append({"request": key, "program": r.get("program")})
            else:
                rep.harness_error(f"kernel counterexample did not reproduce on the real back ends: {key} {r['violation']['label']}")
        elif len(ksamples) < 4 and r["stats"].get("paths", 0) > 1:
            ksamples.append({"request": r["request"], "program": r.get("program"), "paths": r["stats"]["paths"]})
    phase["kernels_s"] = round(time.time() - t_k, 1)
    t_k = time.time()
    # ---- 3 tool chain
    tc_checked = 0
    for req in reqs:
        comp = compile_request(req, kinds=kprog.KINDS3)
        if comp.refusal:
            continue
        tc_checked += 1
        for p in toolchain_accepts(comp):
            rep.violation({"name": req.key(), "kind": "toolchain-rejects", "request": req.key()},
                          {"property": "C06", "part": 3, "request": req.asdict(), "problem": p})
    # ---- 4 identifiers
    ident = identifier_obligations(rep)
    for w in ident["reserved_words_admitted_as_names"][:60]:
        if len([1 for v in rep.violations]) > 40:
            break
        conf = confirm_identifier(w) if w in ("if", "malloc", "int", "double", "while", "restrict", "evaluate") else {"confirmed": True, "why": "same family (not compiled individually)"}
        if conf["confirmed"]:
            rep.violation({"name": f"identifier {w}", "kind": "identifier-is-c-reserved", "word": w},
                          {"property": "C06", "part": 4, "word": w, "confirmation": conf})
    if ident["user_names_can_contain_underscore"] != "unsat" or not ident["generated_names_all_contain_underscore"]:
        rep.violation({"name": "identifier templates", "kind": "generated-names-may-collide"},
                      {"property": "C06", "part": 4, **ident})
    phase["toolchain_identifiers_s"] = round(time.time() - t_k, 1)
    if not tree_stats.get("1", {}).get("trees") or not generated:
        rep.harness_error("vacuous run")
    n_trees = sum(v["trees"] for v in tree_stats.values())
    coverage = {
        "programs": n_trees + stmt_stats["programs"] + len(generated) * 3,
        "disagreements_checked": disagreements_checked,
        "samples": (confirmed_samples + ksamples) or [{"note": "no sample"}],
        "expression_trees": tree_stats, "statement_programs": stmt_stats,
        "kernels": {"requests": len(reqs), "generated": len(generated), "refused": refused, **kagg,
                    "solver_s": round(kagg["solver_s"], 2), "solver_counterexamples": kviol,
                    "tasks": len(tasks), "tasks_completed": len(results), "over_budget": kernel_over_budget[:40], "structural_candidates_without_observed_bit_difference": structural_only[:40],
                    "structural_candidates_decided_exact_equal_not_replayed": structural_not_replayed,
                    "exact_value_stage_tasks": len(exact_tasks),
                    "bounds": {"dense_dimension_max": D, "stored_entries_per_compressed_level": N}},
        "toolchain_checked": tc_checked, "identifier_obligations": ident, "phase_wall_s": phase,
        "unconfirmed_overflow_only_candidates": unconfirmed_overflow_only,
        "known_findings_met": [k["id"] for k in rep.known],
        "functions_encoded": ["tensora.codegen.ir_to_c (text parsed by pycparser after gcc -E with the real headers)",
                              "tensora.codegen.ir_to_llvm (text parsed instruction by instruction)",
                              "generate_module_tensora for whole kernels"],
    }
    common.write_evidence("C06", tier, "translation_validation", coverage,
                          ["int32 arithmetic of both back ends is two's complement (gcc -fwrapv / LLVM add,sub,mul): an intermediate "
                           "overflow that wraps to the same final value is recorded as benign, not as a violation",
                           "doubles: (i) exact rationals, (ii) uninterpreted fadd/fsub/fmul (same operation DAG = bit-identical); a "
                           "structural difference is a violation only when the real back ends return different bits",
                           "gcc, pycparser, llvmlite's verifier and LLVM's code generator are trusted", "z3 trusted"],
                          time.time() - t0, len(rep.violations))
    print(f"C06 {tier}: trees={n_trees} statements={stmt_stats['programs']} kernels={len(generated)} "
          f"kernel paths={kagg['paths']} toolchain={tc_checked} wall={time.time() - t0:.0f}s", flush=True)
    return rep.exit_code()


def replay_statement(b):
    """Compile the statement program through gcc (real C text) and the LLVM JIT and run both on the
    counterexample environment; also run the concrete IR machine."""
    import ctypes
    from fractions import Fraction

    from tensora.codegen import ir_to_c
    from tensora.compile._compile_llvm import compile_module

    ns = {k: getattr(ir, k) for k in dir(ir) if not k.startswith("_")}
    ns.update({"Integer": irt.Integer, "Float": irt.Float, "Boolean": irt.Boolean, "Pointer": irt.Pointer})
    stmt = eval(b["statement"], ns)
    fn = statement_function(stmt, "f0")
    module = ir.Module([fn])
    env = b["env"]
    x, y = int(env["x"]), int(env["y"])
    u = float(Fraction(env["u"]))
    p = env["p"] == "True"
    ia0 = [int(v) for v in env["ia"]]
    sig = [ctypes.c_int32, ctypes.c_int32, ctypes.c_double, ctypes.c_bool, ctypes.POINTER(ctypes.c_int32),
           ctypes.POINTER(ctypes.c_double), ctypes.POINTER(ctypes.c_int32), ctypes.POINTER(ctypes.c_double)]

    def call(f):
        ia = (ctypes.c_int32 * 3)(*ia0)
        fa = (ctypes.c_double * 3)(0.0, 0.0, 0.0)
        out = (ctypes.c_int32 * 3)(-77, -77, -77)
        fout = (ctypes.c_double * 1)(-77.0)
        r = f(x, y, u, p, ia, fa, out, fout)
        return [r, list(ia), list(fa), list(out), list(fout)]

    res = {}
    try:
        engine = compile_module(module)
        fl = ctypes.CFUNCTYPE(ctypes.c_int32, *sig)(engine.get_function_address("f0"))
        res["llvm"] = call(fl)
    except Exception as e:  # noqa: BLE001
        res["llvm"] = f"error {type(e).__name__}: {e}"[:200]
    define, _t = cfront.headers()
    with tempfile.TemporaryDirectory(prefix="verif_c06s_") as td:
        src = os.path.join(td, "f.c")
        with open(src, "w") as f:
            f.write("#include <stdint.h>\n#include <stdbool.h>\n#include <stdlib.h>\n" + define + "\n" + ir_to_c(module) + "\n")
        so = os.path.join(td, "f.so")
        cp = subprocess.run(["gcc", "-std=gnu11", "-O0", "-fwrapv", "-shared", "-fPIC", "-w", src, "-o", so],
                            capture_output=True, text=True)
        if cp.returncode != 0:
            res["c"] = "compile error: " + cp.stderr[-300:]
        else:
            lib = ctypes.CDLL(so)
            lib.f0.restype = ctypes.c_int32
            lib.f0.argtypes = sig
            res["c"] = call(lib.f0)
    res["differs"] = res.get("c") != res.get("llvm")
    return res
