"""C05 (safety of all three kernel kinds) and C04 (assemble;compute == evaluate)."""

from __future__ import annotations

from .. import judge, kprog, replay
from ..request import Request, compile_request, has_broadcast_target
from . import keval

FUNCS = ["tensora.generate.generate_module_tensora(problem, [assemble, compute, evaluate]) — all three IR "
         "functions from one call, executed symbolically"]


def _programs(rec):
    prog = rec.get("program")
    if rec.get("mode") == "c04":
        return [["evaluate"], ["assemble", "compute"]]
    if prog == "evaluate":
        return [["evaluate"]]
    return [["assemble", "compute"]]


def confirm(rec, families):
    req = Request.make(rec["request"]["assignment"], rec["request"]["formats"])
    comp = compile_request(req, kinds=kprog.KINDS3)
    dec = rec["violation"].get("decoded")
    out = {"ir": [], "asan": [], "confirmed": False, "where": []}
    if dec is None:
        return out
    outputs_ir = []
    outputs_c = []
    for fns in _programs(rec):
        ir = replay.concrete_ir_run(comp, fns, dec)
        entry = {"program": fns, "violation": ir["violation"]}
        if ir["violation"] is not None:
            out["confirmed"] = True
            out["where"].append("ir-machine:" + "+".join(fns))
        else:
            outputs_ir.append(ir["output"])
            probs = judge.judge_output(comp, dec, ir["output"], ["canon", "value"])
            entry["problems"] = probs
            if probs:
                out["confirmed"] = True
                out["where"].append("ir-machine-output:" + "+".join(fns))
        out["ir"].append(entry)
        asan = replay.asan_run(comp, fns, dec)
        out["asan"].append({"program": fns, "status": asan["status"], "stderr": asan.get("stderr", "")[-800:]})
        if asan["status"] in ("sanitizer", "crash", "timeout"):
            out["confirmed"] = True
            out["where"].append("c-asan:" + "+".join(fns))
        elif asan["status"] == "ok":
            outputs_c.append(asan["output"])
            o = dict(asan["output"])
            o["vals_length"] = len(o["vals"])
            probs = judge.judge_output(comp, dec, o, ["canon", "value"])
            if probs:
                out["confirmed"] = True
                out["where"].append("c-output:" + "+".join(fns))
                out["asan"][-1]["problems"] = probs
    if rec.get("mode") == "c04":
        if len(outputs_ir) == 2 and not judge.same_raw(outputs_ir[0], outputs_ir[1]):
            out["confirmed"] = True
            out["where"].append("ir-machine: evaluate != assemble;compute")
        if len(outputs_c) == 2 and not judge.same_raw(outputs_c[0], outputs_c[1]):
            out["confirmed"] = True
            out["where"].append("compiled C: evaluate != assemble;compute")
    return out


def run_c05(tier):
    variants = [{"mode": "c05", "program": "evaluate"}, {"mode": "c05", "program": "assemble+compute"}]
    return keval.run("C05", tier, families=["safety", "handback"], worker=kprog.run_task, variants=variants,
                     confirm_fn=confirm, validate=False, functions=FUNCS,
                     extra_assumptions=["element counts fit int32 (dimensions <= D)",
                                        "allocation failure is not modelled",
                                        "compute runs on the output assemble produced"])


def run_c04(tier):
    variants = [{"mode": "c04", "program": None}]
    return keval.run("C04", tier, families=["mismatch"], worker=kprog.run_task, variants=variants,
                     confirm_fn=confirm, validate=False, functions=FUNCS,
                     extra_assumptions=["history = assemble once, compute, compute again with re-valued inputs of the same "
                                        "structure (one re-run; compute reads no state of a previous compute: checked by "
                                        "comparing the second result with the specification of the new values)"])
