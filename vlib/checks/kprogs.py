"""C05 (safety of all three kernel kinds) and C04 (assemble;compute == evaluate)."""

from __future__ import annotations

import os

from .. import judge, kprog, replay
from ..request import Request, compile_request, has_broadcast_target
from . import keval

FUNCS = ["tensora.generate.generate_module_tensora(problem, [assemble, compute, evaluate]) — all three IR "
         "functions from one call, executed symbolically"]


def _programs(rec):
    prog = rec.get("program")
    if rec.get("mode") == "c04":
        return [["evaluate"], ["assemble", "compute"]]
    if prog == "evaluate":
        return [["evaluate"]]
    return [["assemble", "compute"]]


def confirm(rec, families):
    req = Request.make(rec["request"]["assignment"], rec["request"]["formats"])
    comp = compile_request(req, kinds=kprog.KINDS3)
    dec = rec["violation"].get("decoded")
    out = {"ir": [], "asan": [], "confirmed": False, "where": []}
    if dec is None:
        return out
    outputs_ir = []
    outputs_c = []
    for fns in _programs(rec):
        ir = replay.concrete_ir_run(comp, fns, dec)
        entry = {"program": fns, "violation": ir["violation"]}
        if ir["violation"] is not None:
            out["confirmed"] = True
            out["where"].append("ir-machine:" + "+".join(fns))
        else:
            outputs_ir.append(ir["output"])
            probs = judge.judge_output(comp, dec, ir["output"], ["canon", "value"])
            entry["problems"] = probs
            if probs:
                out["confirmed"] = True
                out["where"].append("ir-machine-output:" + "+".join(fns))
        out["ir"].append(entry)
        asan = replay.asan_run(comp, fns, dec)
        out["asan"].append({"program": fns, "status": asan["status"], "stderr": asan.get("stderr", "")[-800:]})
        if asan["status"] in ("sanitizer", "crash", "timeout"):
            out["confirmed"] = True
            out["where"].append("c-asan:" + "+".join(fns))
        elif asan["status"] == "compile-error":
            out["confirmed"] = True
            out["where"].append("emitted C does not compile:" + "+".join(fns))
        try:
            asl = replay.asan_run_llvm(comp, fns, dec)
        except Exception as e:  # noqa: BLE001
            asl = {"status": "generation-error", "stderr": str(e)[:300]}
        out.setdefault("asan_llvm", []).append({"program": fns, "status": asl["status"], "stderr": asl.get("stderr", "")[-600:]})
        if asl["status"] in ("sanitizer", "crash", "timeout", "compile-error", "generation-error"):
            out["confirmed"] = True
            out["where"].append("llvm-asan:" + "+".join(fns) + ":" + asl["status"])
        elif asl["status"] == "ok":
            o = dict(asl["output"])
            o["vals_length"] = len(o["vals"])
            probs = judge.judge_output(comp, dec, o, ["canon", "value"])
            if probs:
                out["confirmed"] = True
                out["where"].append("llvm-output:" + "+".join(fns))
        elif asan["status"] == "ok":
            outputs_c.append(asan["output"])
            o = dict(asan["output"])
            o["vals_length"] = len(o["vals"])
            probs = judge.judge_output(comp, dec, o, ["canon", "value"])
            if probs:
                out["confirmed"] = True
                out["where"].append("c-output:" + "+".join(fns))
                out["asan"][-1]["problems"] = probs
    if rec.get("mode") == "c04":
        if len(outputs_ir) == 2 and not judge.same_raw(outputs_ir[0], outputs_ir[1]):
            out["confirmed"] = True
            out["where"].append("ir-machine: evaluate != assemble;compute")
        if len(outputs_c) == 2 and not judge.same_raw(outputs_c[0], outputs_c[1]):
            out["confirmed"] = True
            out["where"].append("compiled C: evaluate != assemble;compute")
    return out


def _c05_filter(tasks):
    """Format-sweep requests (cheap copy kernels added for output-format coverage) run the evaluate
    program only; the fixed list runs both programs."""
    from .. import corpus

    sweep = corpus.sweep_keys()
    out = []
    for t in tasks:
        key = Request.make(t["assignment"], t["formats"]).key()
        if key in sweep and t.get("program") != "evaluate" and os.environ.get("VERIF_TIER_FULL") != "1":
            continue
        out.append(t)
    return out


def run_c05(tier):
    variants = [{"mode": "c05", "program": "evaluate"}, {"mode": "c05", "program": "assemble+compute"}]
    return keval.run("C05", tier, families=["safety", "handback"], worker=kprog.run_task, variants=variants,
                     task_filter=_c05_filter if tier == "quick" else None,
                     extra=lambda rep, coverage: __import__("vlib.checks.c05_step", fromlist=["run"]).run(rep),
                     confirm_fn=confirm, validate=False, functions=FUNCS, validator=validate_asan,
                     extra_assumptions=["element counts fit int32 (dimensions <= D)",
                                        "allocation failure is not modelled",
                                        "compute runs on the output assemble produced"])


def run_c04(tier):
    variants = [{"mode": "c04", "program": None}]
    return keval.run("C04", tier, families=["mismatch"], worker=kprog.run_task, variants=variants,
                     confirm_fn=confirm, validate=False, functions=FUNCS, validator=validate_asan, quick_corpus="core",
                     extra_assumptions=["history = assemble once, compute, compute again with re-valued inputs of the same "
                                        "structure (one re-run; compute reads no state of a previous compute: checked by "
                                        "comparing the second result with the specification of the new values)"])


C16_THOROUGH_ONLY = {"A(i,j) = B(i,j) + C(i,j) + D(i,j)", "a(i) = b(i) + c(i) + d(i) + e(i)"}


def _c16_tasks(tasks):
    """Keep requests with at least one index meeting the hypothesis; that index class becomes fully
    symbolic (0 .. 2^31-1), the others keep their enumerated sizes."""
    out = []
    seen = set()
    cache = {}
    for t in tasks:
        key = (t["assignment"], tuple(sorted(t["formats"].items())))
        if key not in cache:
            comp = compile_request(Request.make(t["assignment"], t["formats"]), kinds=kprog.KINDS3)
            cache[key] = [] if comp.refusal else kprog.eligible_classes(comp)
        el = cache[key]
        if not el:
            continue
        if (t["assignment"] in C16_THOROUGH_ONLY or len(t["formats"]) >= 5) and not t.get("_thorough"):
            continue  # > 6000 paths with a free dimension (4 and more sparse operands): thorough tier only
        dv = {k: v for k, v in t["dimvec"].items() if k not in el}
        k2 = (key, tuple(sorted(dv.items())))
        if k2 in seen:
            continue
        seen.add(k2)
        out.append({**t, "dimvec": dv, "symbolic_classes": el})
    return out


def confirm_c16(rec, families):
    """Replay on the concrete IR machine with its loop/statement counters at D and at a larger D."""
    req = Request.make(rec["request"]["assignment"], rec["request"]["formats"])
    comp = compile_request(req, kinds=kprog.KINDS3)
    dec = rec["violation"].get("decoded")
    out = {"confirmed": False, "where": [], "runs": []}
    if dec is None:
        return out
    from ..explore import index_classes, tensor_index_lists

    detail = rec["violation"].get("detail") or {}
    classes = rec.get("symbolic_classes") or ([detail.get("class")] if detail.get("class") else [])
    cls = index_classes(comp.assignment)
    lists = tensor_index_lists(comp.assignment)

    def scaled(dims):
        """The decoded inputs with the sizes of the given index classes replaced."""
        import copy

        d2 = copy.deepcopy(dec)
        for c, newd in dims.items():
            d2["dimvals"][c] = newd
        for name, t in d2["inputs"].items():
            t["dimensions"] = [dims.get(cls[i], old) for i, old in zip(lists[name], t["dimensions"])]
        d2["output_dimensions"] = [dims.get(cls[i], old) for i, old in zip(lists[comp.target], d2["output_dimensions"])]
        return d2

    def min_dim(c):
        """Smallest size of class c that still contains every stored coordinate."""
        need = 0
        for name, t in dec["inputs"].items():
            fmt = comp.formats[name]
            for l, lv in enumerate(t["indices"]):
                if lv and cls[lists[name][fmt.ordering[l]]] == c and lv[1]:
                    need = max(need, max(lv[1]) + 1)
        return need

    # every free class shrunk to just above its stored coordinates (the model may put them near 2^31: a
    # defective dense loop over such a size would run for hours on the concrete machine), then one class at a
    # time enlarged
    small = {c: min(dec["dimvals"][c], max(min_dim(c), 1) + 3) for c in classes}
    base = replay.concrete_ir_run(comp, ["evaluate"], scaled(small), max_loop_iter=20000)
    for c in classes:
        d0 = small[c]
        d_big = d0 + 300
        big = replay.concrete_ir_run(comp, ["evaluate"], scaled({**small, c: d_big}), max_loop_iter=20000)
        run = {"class": c, "D": d0, "D2": d_big,
               "iterations": [base.get("loop_iterations"), big.get("loop_iterations")],
               "statements": [base.get("statements"), big.get("statements")],
               "violations": [base["violation"], big["violation"]]}
        out["runs"].append(run)
        if base["violation"] is None and big["violation"] is None and (
                run["iterations"][0] != run["iterations"][1] or run["statements"][0] != run["statements"][1]):
            out["confirmed"] = True
            out["where"].append(f"ir-machine counters differ for {c}: D={d0} vs D={d_big}")
    return out


def run_c16(tier):
    variants = [{"mode": "c16", "program": "evaluate", "_thorough": tier != "quick"}]
    return keval.run("C16", tier, families=["work"], worker=kprog.run_task, variants=variants,
                     confirm_fn=confirm_c16, validate=False, functions=FUNCS, task_filter=_c16_tasks,
                     extra_assumptions=["the sparse-only dimension is a free integer in [0, 2^31-1]; if every path condition is "
                                        "monotone in it, the same stored entries follow the same path - hence execute the same loop "
                                        "iterations and statements - under any larger dimension",
                                        "a loop bounded by such a dimension cannot complete a path and is reported as unwinding violation"])


def validate_asan(results, limit, rep=None):
    """Serval-style validation of the executor against the implementation: witnesses of verified
    paths run through the concrete IR machine and through the emitted C compiled with
    gcc -fsanitize=address,undefined (evaluate and assemble;compute); outputs must agree, the
    sanitizers must stay silent and evaluate must equal assemble;compute."""
    n = 0
    problems = []
    seen = set()
    for r in results:
        if n >= limit:
            break
        w = r.get("witness")
        if r["status"] != "ok" or not w:
            continue
        key = (r["request"]["assignment"], tuple(sorted(r["request"]["formats"].items())))
        if key in seen:
            continue
        seen.add(key)
        req = Request.make(r["request"]["assignment"], r["request"]["formats"])
        comp = compile_request(req, kinds=kprog.KINDS3)
        outs = []
        ok = True
        for fns in (["evaluate"], ["assemble", "compute"]):
            ir = replay.concrete_ir_run(comp, fns, w)
            if ir["violation"] is not None:
                problems.append(f"witness of a verified path violates on the IR machine: {req.key()} {fns} {ir['violation']}")
                ok = False
                break
            asan = replay.asan_run(comp, fns, w)
            if asan["status"] in ("sanitizer", "crash", "timeout") and rep is not None:
                # a concrete run of the real emitted C under ASan/UBSan: a violation in its own right
                rep.violation({"name": req.key(), "kind": "sanitizer-on-witness", "backend": "c", "request": req.key()},
                              {"property": rep.pid, "part": "sanitizer build of the emitted C on a witness", "request": req.asdict(),
                               "program": fns, "inputs": w, "status": asan["status"], "stderr": asan.get("stderr", "")[-1500:]})
                ok = False
                break
            if asan["status"] != "ok":
                problems.append(f"sanitizer build failed on a witness of a verified path: {req.key()} {fns} {asan['status']} {asan.get('stderr', '')[-300:]}")
                ok = False
                break
            if not judge.same_raw(ir["output"], asan["output"]):
                problems.append(f"IR machine and compiled C disagree on a witness: {req.key()} {fns} {ir['output']} vs {asan['output']}")
                ok = False
                break
            asl = replay.asan_run_llvm(comp, fns, w)
            if asl["status"] in ("sanitizer", "crash", "timeout") and rep is not None:
                rep.violation({"name": req.key(), "kind": "sanitizer-on-witness", "backend": "llvm", "request": req.key()},
                              {"property": rep.pid, "part": "clang -fsanitize=address build of the emitted LLVM module on a witness",
                               "request": req.asdict(), "program": fns, "inputs": w, "status": asl["status"],
                               "stderr": asl.get("stderr", "")[-1500:]})
                ok = False
                break
            if asl["status"] != "ok" or not judge.same_raw(ir["output"], asl["output"]):
                problems.append(f"IR machine and clang-compiled LLVM module disagree on a witness: {req.key()} {fns} {asl.get('status')} {asl.get('stderr', '')[-200:]}")
                ok = False
                break
            outs.append(asan["output"])
        if ok and len(outs) == 2 and not judge.same_raw(outs[0], outs[1]):
            problems.append(f"compiled evaluate != assemble;compute on a witness of a verified path: {req.key()}")
            ok = False
        if ok:
            n += 1
    return n, problems
