"""C09 — tensor construction and read-back are lossless for every format.

The real ``Tensor`` code runs on z3-backed proxies over a pure-Python stand-in for the cffi layer:

(R) *reader*: ``items() / taco_indices / taco_vals / __getstate__ -> __setstate__`` on an arbitrary
    well-formed stored structure of every format of order <= 3: coordinates (crd), values and the
    sizes of compressed-only dimensions stay symbolic; ``pos`` entries and dense extents are
    concretised by solver value forks when ``range()`` needs them.  z3 decides that the entries
    read back are exactly the stored ones, in dimension order.
(W) *writer*: ``from_aos / from_dok / from_soa / from_lol / to_format`` on <= 2 entries whose
    coordinates range over [-1, dim] (value-forked: the real code hashes them), values symbolic,
    duplicates allowed; read back with the real reader and compared with the summed entries.
    This half is bounded-exhaustive over coordinates by solver enumeration, symbolic in values.
"""

from __future__ import annotations

import itertools
import time

import z3
from tensora.format import Format, Mode

from .. import common, pyproxy
from ..kse import HarnessError, Infeasible
from ..pyproxy import SymInt, SymBool
from ..sym import INT_MAX, simp_bool

N_MAX = 2  # stored entries per compressed level (reader)
D_DENSE = 2  # dense extents 0..2


# ------------------------------------------------------------------ fake FFI


class FakeArr:
    def __init__(self, items, kind="int"):
        self.items = list(items)
        self.kind = kind

    def __getitem__(self, k):
        if isinstance(k, slice):
            start = k.start
            stop = k.stop
            if isinstance(start, SymInt):
                start = start.concretise()
            if isinstance(stop, SymInt):
                stop = stop.concretise()
            if stop is not None and stop > len(self.items):
                raise IndexError("read past the end of a C array")
            return self.items[slice(start, stop, k.step)]
        if isinstance(k, SymInt):
            k = k.concretise()
        if not (0 <= k < len(self.items)):
            raise IndexError("read outside a C array")
        return self.items[k]

    def __setitem__(self, k, v):
        self.items[k] = v

    def __len__(self):
        return len(self.items)


class FakeStruct:
    pass


NULL = FakeArr([], "null")


class FakeFFI:
    NULL = NULL

    def new(self, ctype, init=None):
        if ctype == "taco_tensor_t*":
            return FakeStruct()
        items = list(init) if init is not None else []
        if ctype in ("int32_t[]", "taco_mode_t[]"):
            for x in items:
                if isinstance(x, SymInt):
                    if not (x >= -(2**31)) or not (x <= INT_MAX):
                        raise OverflowError("integer does not fit int32_t")
                elif not (-(2**31) <= x <= INT_MAX):
                    raise OverflowError("integer does not fit int32_t")
        return FakeArr(items, ctype)

    def cast(self, ctype, obj):
        return obj

    def gc(self, obj, destructor):
        return obj


class FakeLib:
    taco_mode_dense = 0
    taco_mode_sparse = 1
    free = None


class fake_ffi:
    def __enter__(self):
        import tensora.compile as tc
        import tensora.compile._cffi_ownership as own

        self.saved = (own.tensor_cdefs, own.tensor_lib, tc.tensor_cdefs)
        f = FakeFFI()
        own.tensor_cdefs = f
        own.tensor_lib = FakeLib()
        tc.tensor_cdefs = f
        return f

    def __exit__(self, *a):
        import tensora.compile as tc
        import tensora.compile._cffi_ownership as own

        own.tensor_cdefs, own.tensor_lib, tc.tensor_cdefs = self.saved
        return False


# ------------------------------------------------------------------ symbolic values


class SymVal:
    """A symbolic float value: +, ==/!= (fork), never concretised."""

    def __init__(self, t):
        self.t = t

    def __add__(self, o):
        return SymVal(self.t + (o.t if isinstance(o, SymVal) else z3.RealVal(str(o))))

    __radd__ = __add__

    def __sub__(self, o):
        return SymVal(self.t - (o.t if isinstance(o, SymVal) else z3.RealVal(str(o))))

    def __rsub__(self, o):
        return SymVal((o.t if isinstance(o, SymVal) else z3.RealVal(str(o))) - self.t)

    def __neg__(self):
        return SymVal(-self.t)

    def __mul__(self, o):
        if isinstance(o, SymVal):
            raise HarnessError("product of two symbolic values")
        return SymVal(self.t * z3.RealVal(str(o)))

    __rmul__ = __mul__

    def __bool__(self):
        # float truthiness: non-zero (forks)
        r = simp_bool(self.t != 0)
        return r if isinstance(r, bool) else pyproxy.engine().decide(r)

    def _cmp(self, o, neg):
        ot = o.t if isinstance(o, SymVal) else z3.RealVal(str(o))
        r = simp_bool((self.t != ot) if neg else (self.t == ot))
        return r if isinstance(r, bool) else SymBool(r)

    def __eq__(self, o):
        return self._cmp(o, False)

    def _ord(self, o, op):
        ot = o.t if isinstance(o, SymVal) else z3.RealVal(str(o))
        r = simp_bool({"<": self.t < ot, "<=": self.t <= ot, ">": self.t > ot, ">=": self.t >= ot}[op])
        return r if isinstance(r, bool) else SymBool(r)

    def __lt__(self, o):
        return self._ord(o, "<")

    def __le__(self, o):
        return self._ord(o, "<=")

    def __gt__(self, o):
        return self._ord(o, ">")

    def __ge__(self, o):
        return self._ord(o, ">=")

    def __ne__(self, o):
        return self._cmp(o, True)

    def __hash__(self):
        raise HarnessError("hash of a symbolic value")

    def __float__(self):
        raise HarnessError("float() of a symbolic value")

    def __repr__(self):
        return "<sym value>"


import numbers as _numbers  # noqa: E402

_numbers.Real.register(SymVal)


def vterm(v):
    return v.t if isinstance(v, SymVal) else z3.RealVal(str(v))


def iterm(x):
    return x.t if isinstance(x, SymInt) else z3.IntVal(int(x))


# ------------------------------------------------------------------ (R) reader on arbitrary WF structures


def all_formats(order):
    for modes in itertools.product([Mode.dense, Mode.compressed], repeat=order):
        for perm in itertools.permutations(range(order)):
            yield Format(tuple(modes), tuple(perm))


def symbolic_structure(m, fmt: Format, tag="T", bounded_dims=False):
    """A FakeStruct holding an arbitrary well-formed stored tensor + the oracle's view of it."""
    f = FakeFFI()
    order = fmt.order
    dims = []
    for d in range(order):
        level = fmt.ordering.index(d)
        if fmt.modes[level] == Mode.dense:
            t = z3.Int(f"{tag}_dim{d}")
            m.assume(t >= 0)
            m.assume(t <= D_DENSE)
            dims.append(SymInt(t, dom=(0, D_DENSE)))
        else:
            t = z3.Int(f"{tag}_dim{d}")
            m.assume(t >= 0)
            if bounded_dims:
                m.assume(t <= 3)
                dims.append(SymInt(t, dom=(0, 3)))  # concretisable: a reader that wrongly uses it still runs
            else:
                m.assume(t <= INT_MAX)
                dims.append(SymInt(t))  # never concretised
    levels = []
    oracle_levels = []
    n_prev_t = z3.IntVal(1)
    p_bound = 1
    for l, mode in enumerate(fmt.modes):
        d = fmt.ordering[l]
        if mode == Mode.dense:
            n_prev_t = n_prev_t * dims[d].t
            p_bound = p_bound * D_DENSE
            levels.append(f.new("int32_t*[]", []))
            oracle_levels.append(None)
            continue
        pos = [z3.Int(f"{tag}_{l}_pos{k}") for k in range(p_bound + 1)]
        crd = [z3.Int(f"{tag}_{l}_crd{q}") for q in range(N_MAX)]
        n = z3.Int(f"{tag}_{l}_n")
        m.assume(pos[0] == 0)
        m.assume(n >= 0)
        m.assume(n <= N_MAX)
        for k in range(p_bound):
            m.assume(z3.Implies(k < n_prev_t, z3.And(pos[k] <= pos[k + 1], pos[k + 1] <= N_MAX)))
            m.assume(z3.Implies(k + 1 == n_prev_t, pos[k + 1] == n))
        m.assume(z3.Implies(n_prev_t == 0, n == 0))
        for q in range(N_MAX):
            m.assume(z3.Implies(q < n, z3.And(crd[q] >= 0, crd[q] < dims[d].t)))
        for q in range(N_MAX - 1):
            boundary = z3.Or(*[z3.And(k <= n_prev_t, pos[k] == q + 1) for k in range(1, p_bound + 1)]) if p_bound else z3.BoolVal(False)
            m.assume(z3.Implies(z3.And(q + 1 < n, z3.Not(boundary)), crd[q] < crd[q + 1]))
        pos_arr = FakeArr([SymInt(t, dom=(0, N_MAX)) for t in pos], "int32_t[]")
        crd_arr = FakeArr([SymInt(t) for t in crd], "int32_t[]")
        levels.append(f.new("int32_t*[]", [pos_arr, crd_arr]))
        oracle_levels.append((pos, crd, n))
        n_prev_t = n
        p_bound = N_MAX
    n_vals = p_bound
    vals = [SymVal(z3.Real(f"{tag}_val{q}")) for q in range(n_vals)]
    s = FakeStruct()
    s.order = order
    s.dimensions = FakeArr(dims, "int32_t[]")
    s.mode_ordering = FakeArr(list(fmt.ordering), "int32_t[]")
    s.mode_types = FakeArr([mm.c_int for mm in fmt.modes], "taco_mode_t[]")
    s.indices = FakeArr(levels, "int32_t**[]")
    s.vals = FakeArr(vals, "double[]")
    return s, {"dims": dims, "levels": oracle_levels, "vals": vals}


def oracle_entries(m, fmt, view):
    """Stored entries in storage order, written from the format definition: [(coords by dimension, value)].
    pos values are path-concrete at this point (range() forked on them); crd and values are terms."""
    order = fmt.order
    out = []

    def val_of(term):
        v = m.value_is(term)
        if v is None:
            raise HarnessError("pos entry not concrete at path end")
        return v

    def rec(l, p, coords):
        if l == order:
            out.append((tuple(coords[d] for d in range(order)), view["vals"][p]))
            return
        d = fmt.ordering[l]
        if fmt.modes[l] == Mode.dense:
            dim = val_of(view["dims"][d].t)
            for c in range(dim):
                coords[d] = z3.IntVal(c)
                rec(l + 1, p * dim + c, coords)
        else:
            pos, crd, n = view["levels"][l]
            lo, hi = val_of(pos[p]), val_of(pos[p + 1])
            for q in range(lo, hi):
                coords[d] = crd[q]
                rec(l + 1, q, coords)

    rec(0, 0, {})
    return out


def reader_case(fmt: Format, stats):
    """Two passes: compressed-only dimension sizes bounded by 3 (so that a reader that wrongly lets
    them influence array extents still runs and is caught), then free up to 2^31-1."""
    problems = _reader_pass(fmt, stats, True)
    if not problems:
        problems = _reader_pass(fmt, stats, False)
    return problems


def concrete_structure(m, fmt, view):
    """The solver's current model as raw taco arrays."""
    m.check()
    model = m.solver.model()

    def iv(t):
        return model.eval(t, model_completion=True).as_long()

    dims = [iv(x.t) for x in view["dims"]]
    indices = []
    n_prev = 1
    for l, mode in enumerate(fmt.modes):
        if mode == Mode.dense:
            indices.append([])
            n_prev *= dims[fmt.ordering[l]]
        else:
            pos, crd, n = view["levels"][l]
            p = [iv(pos[k]) for k in range(n_prev + 1)]
            indices.append([p, [iv(crd[q]) for q in range(p[-1])]])
            n_prev = p[-1]
    vals = []
    for q in range(n_prev):
        v = model.eval(view["vals"][q].t, model_completion=True)
        vals.append(float(v.numerator_as_long()) / float(v.denominator_as_long()) + 1.0 + q)
    return dims, indices, vals


def replay_reader(fmt, dims, indices, vals):
    """Real cffi-backed Tensor on the concrete structure: items() and a pickle round trip against a
    direct walk of the arrays."""
    import pickle
    import subprocess
    import sys
    import os
    import json

    script = r"""
import json, sys, pickle
spec = json.load(sys.stdin)
from tensora import Tensor
from tensora.compile import taco_structure_to_cffi
from tensora.format import parse_format
fmt = parse_format(spec["format"]).unwrap()
t = Tensor(taco_structure_to_cffi(spec["indices"], spec["vals"], mode_types=tuple(m.c_int for m in fmt.modes),
                                  dimensions=tuple(spec["dims"]), mode_ordering=fmt.ordering))
out = {"items": [[list(c), v] for c, v in t.items()]}
try:
    t2 = pickle.loads(pickle.dumps(t))
    out["pickled"] = [[list(c), v] for c, v in t2.items()]
    out["pickled_format"] = t2.format.deparse()
except Exception as e:
    out["pickle_error"] = f"{type(e).__name__}: {e}"[:200]
print("RESULT " + json.dumps(out))
"""
    env = dict(os.environ)
    env["PYTHONPATH"] = os.path.join(os.environ.get("TENSORA_VERIF_REPO", "/repo"), "src")
    p = subprocess.run([sys.executable, "-c", script], input=json.dumps({"format": fmt.deparse(), "dims": dims,
                       "indices": indices, "vals": vals}), capture_output=True, text=True, env=env, timeout=120)
    del pickle
    if p.returncode < 0:
        return {"status": "crash", "signal": -p.returncode, "stderr": p.stderr[-400:]}
    if p.returncode != 0:
        return {"status": "replay-error", "stderr": p.stderr[-400:]}
    for line in p.stdout.splitlines():
        if line.startswith("RESULT "):
            got = json.loads(line[7:])
            # direct walk
            from ..replay import raw_entries

            want = [[list(c), vals[pos]] for c, pos in raw_entries(fmt, dims, indices, vals)]
            bad = []
            if got["items"] != want:
                bad.append("items() differs from the stored entries")
            if "pickle_error" in got:
                bad.append("pickle round trip raised " + got["pickle_error"])
            elif got.get("pickled") != want or got.get("pickled_format") != fmt.deparse():
                bad.append("pickle round trip changes the content")
            return {"status": "ok", "problems": bad, "want": want[:6], "got": got}
    return {"status": "no-result"}


def _reader_pass(fmt: Format, stats, bounded):
    from tensora import Tensor

    problems = []

    def base(m):
        pass

    def body(m):
        s, view = symbolic_structure(m, fmt, bounded_dims=bounded)
        t = Tensor(s)
        n0 = len(problems)
        try:
            got = list(t.items())
            want = oracle_entries(m, fmt, view)
            check_same(m, got, want, fmt, "items()", problems)
            # raw accessors and the pickle round trip (validator runs on the same symbolic structure)
            state = t.__getstate__()
            t2 = Tensor.__new__(Tensor)
            t2.__setstate__(state)
            got2 = list(t2.items())
            check_same(m, got2, want, fmt, "pickle round trip", problems)
            if tuple(state["mode_ordering"]) != fmt.ordering or t2.format != fmt:
                problems.append({"what": "format not preserved by __getstate__/__setstate__", "format": fmt.deparse()})
        except (HarnessError, Infeasible):
            raise
        except Exception as e:  # noqa: BLE001
            m.check()
            problems.append({"what": f"reader raised {type(e).__name__}: {e}"[:200], "format": fmt.deparse()})
        if len(problems) > n0 and bounded:
            # replay on the real cffi-backed implementation before reporting
            try:
                dims, indices, vals = concrete_structure(m, fmt, view)
                rp = replay_reader(fmt, dims, indices, vals)
            except Exception as e:  # noqa: BLE001
                rp = {"status": "replay-error", "error": f"{type(e).__name__}: {e}"[:200]}
            for p in problems[n0:]:
                p["replay"] = rp
                p["structure"] = {"dims": dims, "indices": indices} if rp.get("status") != "replay-error" else None
            raise _Stop()

    class _Stop(Exception):
        pass

    with fake_ffi():
        try:
            st = pyproxy.explore(base, body, max_paths=4000)
        except _Stop:
            from ..kse import Stats

            st = Stats()
    stats["paths"] += st.paths
    stats["queries"] += st.queries
    stats["solver_s"] += st.solver_s
    stats["decisions"] += st.decisions
    return problems


def check_same(m, got, want, fmt, what, problems):
    if len(got) != len(want):
        problems.append({"what": f"{what}: {len(got)} entries read back, {len(want)} stored", "format": fmt.deparse()})
        return
    conds = []
    for (gc, gv), (wc, wv) in zip(got, want):
        for a, b in zip(gc, wc):
            conds.append(iterm(a) == b)
        conds.append(vterm(gv) == vterm(wv))
    if not conds:
        return
    if m.check(z3.Not(z3.And(*conds))) != z3.unsat:
        model = m.solver.model()
        bad = [str(c) for c in conds if not z3.is_true(model.eval(c, model_completion=True))][:3]
        problems.append({"what": f"{what}: an entry read back differs from the stored one", "format": fmt.deparse(),
                         "falsified": bad})


# ------------------------------------------------------------------ (W) writer


def writer_case(fmt: Format, dims, entry, k_entries, stats):
    """``entry``: 'from_aos' | 'from_dok' | 'from_soa' | 'from_lol'."""
    from tensora import Tensor

    problems = []
    order = fmt.order
    coords_t = [[z3.Int(f"c{e}_{d}") for d in range(order)] for e in range(k_entries)]
    vals_t = [z3.Real(f"v{e}") for e in range(k_entries)]

    def base(m):
        for e in range(k_entries):
            for d in range(order):
                m.assume(coords_t[e][d] >= -1)
                m.assume(coords_t[e][d] <= dims[d])

    def body(m):
        coords = [tuple(SymInt(coords_t[e][d], dom=(-1, dims[d])) for d in range(order)) for e in range(k_entries)]
        vals = [SymVal(v) for v in vals_t]
        try:
            if entry == "from_aos":
                t = Tensor.from_aos(coords, vals, dimensions=tuple(dims), format=fmt)
            elif entry == "from_soa":
                soa = tuple([c[d] for c in coords] for d in range(order))
                t = Tensor.from_soa(soa, vals, dimensions=tuple(dims), format=fmt) if order else Tensor.from_aos(coords, vals, dimensions=tuple(dims), format=fmt)
            else:
                # from_dok hashes the coordinate tuples: concretise first, later duplicates overwrite (dict semantics)
                dok = {}
                for c, v in zip(coords, vals):
                    dok[tuple(x.concretise() for x in c)] = v
                t = Tensor.from_dok(dok, dimensions=tuple(dims), format=fmt)
                coords = list(dok.keys())
                vals = list(dok.values())
            accepted = True
        except (HarnessError, Infeasible):
            raise
        except (ValueError, IndexError, OverflowError, KeyError, TypeError) as e:
            accepted = False
            err = type(e).__name__
        conc = [tuple(x.concretise() if isinstance(x, SymInt) else x for x in c) for c in coords]
        in_range = all(0 <= c[d] < dims[d] for c in conc for d in range(order))
        if not accepted:
            if in_range:
                problems.append({"what": f"in-range input rejected with {err}", "format": fmt.deparse(), "coords": conc,
                                 "dimensions": list(dims), "entry": entry})
            return
        if not in_range:
            problems.append({"what": "a coordinate outside the dimensions was accepted (silently dropped or stored)",
                             "kind": "out-of-range-coordinate-accepted", "format": fmt.deparse(), "coords": conc,
                             "dimensions": list(dims), "entry": entry})
            return
        # expected content: duplicates summed
        want = {}
        for c, v in zip(conc, vals):
            want[c] = want[c] + vterm(v) if c in want else vterm(v)
        try:
            got_items = list(t.items())
            if t.order != order or tuple(t.dimensions) != tuple(dims) or t.format != fmt:
                problems.append({"what": "order/dimensions/format not as given", "format": fmt.deparse(), "entry": entry})
            got = {}
            for c, v in got_items:
                c = tuple(int(x) if not isinstance(x, SymInt) else x.concretise() for x in c)
                if c in got:
                    problems.append({"what": "a coordinate is stored twice", "format": fmt.deparse(), "coords": conc, "dimensions": list(dims), "entry": entry})
                got[c] = vterm(v)
            conds = []
            for c in set(want) | set(got):
                conds.append(got.get(c, z3.RealVal(0)) == want.get(c, z3.RealVal(0)))
            # compressed-only storage must hold exactly the supplied coordinates
            if all(mm == Mode.compressed for mm in fmt.modes) and order and set(got) != set(want):
                problems.append({"what": "stored coordinate set differs from the supplied one", "format": fmt.deparse(),
                                 "coords": conc, "stored": sorted(got), "entry": entry})
            if conds and m.check(z3.Not(z3.And(*conds))) != z3.unsat:
                problems.append({"what": "value read back differs from the (summed) value supplied", "format": fmt.deparse(),
                                 "coords": conc, "dimensions": list(dims), "entry": entry})
            # to_dok: exactly the non-zero entries (the real `value != 0.0` test forks on the symbolic value);
            # explicit_zeros=True: every stored entry
            def ckey(c):
                return tuple(int(x) if not isinstance(x, SymInt) else x.concretise() for x in c)

            d_all = {ckey(c): vterm(v) for c, v in t.to_dok(explicit_zeros=True).items()}
            if set(d_all) != set(got) or any(m.check(d_all[c] != got[c]) != z3.unsat for c in got):
                problems.append({"what": "to_dok(explicit_zeros=True) differs from items()", "format": fmt.deparse(),
                                 "coords": conc, "dimensions": list(dims), "entry": entry})
            d_nz = {ckey(c): vterm(v) for c, v in t.to_dok().items()}
            bad_dok = [c for c in d_nz if c not in got or m.check(z3.Not(z3.And(d_nz[c] == got[c], got[c] != 0))) != z3.unsat]
            bad_dok += [c for c in got if c not in d_nz and m.check(got[c] != 0) != z3.unsat]
            if bad_dok:
                problems.append({"what": "to_dok() is not the set of non-zero stored entries", "format": fmt.deparse(),
                                 "coords": conc, "dimensions": list(dims), "entry": entry, "at": [list(c) for c in bad_dok]})
            if order == 0 and (not got or m.check(vterm(t.__float__()) != got[()]) != z3.unsat):
                problems.append({"what": "float(tensor) differs from the stored scalar", "format": "", "coords": conc,
                                 "dimensions": [], "entry": entry})
            # to_format: content preserved in another format (drops explicit zeros: the comparison below is on values)
            if order and entry == "from_aos":
                other = Format(tuple(Mode.compressed if mm == Mode.dense else Mode.dense for mm in fmt.modes),
                               tuple(reversed(fmt.ordering)))
                t2 = t.to_format(other)
                got2 = {}
                for c, v in t2.items():
                    c = tuple(int(x) if not isinstance(x, SymInt) else x.concretise() for x in c)
                    got2[c] = vterm(v)
                conds2 = [got2.get(c, z3.RealVal(0)) == want.get(c, z3.RealVal(0)) for c in set(want) | set(got2)]
                if t2.format != other or tuple(t2.dimensions) != tuple(dims):
                    problems.append({"what": "to_format: format/dimensions not as requested", "format": fmt.deparse(), "entry": entry})
                if conds2 and m.check(z3.Not(z3.And(*conds2))) != z3.unsat:
                    problems.append({"what": "to_format changes the content", "format": fmt.deparse(), "target": other.deparse(),
                                     "coords": conc, "dimensions": list(dims), "entry": entry})
                # == compares contents whatever the formats
                if not (t == t2):
                    problems.append({"what": "a tensor is not == to its own to_format copy", "format": fmt.deparse(),
                                     "target": other.deparse(), "coords": conc, "dimensions": list(dims), "entry": entry})
            # canonical structure: sorted, duplicate-free per segment
            idx = t.taco_indices
            for l, lv in enumerate(idx):
                if lv:
                    pos, crd = lv
                    for a, b in zip(pos, pos[1:]):
                        seg = crd[a:b]
                        if any(x >= y for x, y in zip(seg, seg[1:])):
                            problems.append({"what": "stored structure is not sorted/duplicate-free", "format": fmt.deparse(),
                                             "coords": conc, "dimensions": list(dims), "entry": entry})
        except (HarnessError, Infeasible):
            raise
        except Exception as e:  # noqa: BLE001
            problems.append({"what": f"read-back raised {type(e).__name__}: {e}"[:200], "format": fmt.deparse(),
                             "coords": conc, "dimensions": list(dims), "entry": entry})

    with fake_ffi():
        st = pyproxy.explore(base, body, max_paths=20000)
    stats["paths"] += st.paths
    stats["queries"] += st.queries
    stats["solver_s"] += st.solver_s
    stats["decisions"] += st.decisions
    return problems


def lol_case(fmt: Format, dims, stats):
    """from_lol on a full list-of-lists of symbolic values (zeros are dropped by the real code via
    ``value != 0.0``, which forks)."""
    from tensora import Tensor

    problems = []
    order = fmt.order
    cells = list(itertools.product(*[range(d) for d in dims]))
    vals_t = {c: z3.Real("l_" + "_".join(map(str, c))) for c in cells}

    def build(prefix):
        if len(prefix) == order:
            return SymVal(vals_t[tuple(prefix)])
        return [build(prefix + [k]) for k in range(dims[len(prefix)])]

    def body(m):
        lol = build([])
        try:
            t = Tensor.from_lol(lol, dimensions=tuple(dims), format=fmt)
            got = {}
            for c, v in t.items():
                c = tuple(int(x) if not isinstance(x, SymInt) else x.concretise() for x in c)
                got[c] = vterm(v)
            conds = [got.get(c, z3.RealVal(0)) == vals_t[c] for c in cells]
            extra = [c for c in got if c not in vals_t]
            if extra:
                problems.append({"what": "from_lol stores a coordinate outside the list", "format": fmt.deparse()})
            if conds and m.check(z3.Not(z3.And(*conds))) != z3.unsat:
                problems.append({"what": "from_lol: value read back differs from the list", "format": fmt.deparse(), "dimensions": list(dims)})
            if tuple(t.dimensions) != tuple(dims) or t.format != fmt:
                problems.append({"what": "from_lol: dimensions/format not as given", "format": fmt.deparse()})
        except (HarnessError, Infeasible):
            raise
        except Exception as e:  # noqa: BLE001
            problems.append({"what": f"from_lol raised {type(e).__name__}: {e}"[:200], "format": fmt.deparse(), "dimensions": list(dims)})

    with fake_ffi():
        st = pyproxy.explore(lambda m: None, body, max_paths=20000)
    for k in ("paths", "queries", "solver_s", "decisions"):
        stats[k] += getattr(st, k)
    return problems


def replay_writer(p):
    """Real cffi-backed entry point on the concrete coordinates (values 1.0, 2.0, ...)."""
    import json
    import os
    import subprocess
    import sys

    script = r"""
import itertools, json, sys
spec = json.load(sys.stdin)
from tensora import Tensor
coords0 = [tuple(c) for c in spec["coords"]]
dims = tuple(spec["dimensions"])
out = {"runs": []}
# values: all positive first (the primary replay), then every positive/zero/negative pattern (to_dok drops zeros)
patterns = [tuple(1 for _ in coords0)] + [p for p in itertools.product([1, 0, -1], repeat=len(coords0)) if not all(x == 1 for x in p)]
for pat in patterns:
    coords = list(coords0)
    vals = [float(sg * (k + 1)) for k, sg in enumerate(pat)]
    run = {"vals": vals}
    try:
        if spec["entry"] == "from_soa" and dims:
            t = Tensor.from_soa(tuple([c[d] for c in coords] for d in range(len(dims))), vals, dimensions=dims, format=spec["format"])
        elif spec["entry"] == "from_dok":
            t = Tensor.from_dok(dict(zip(coords, vals)), dimensions=dims, format=spec["format"])
            d = dict(zip(coords, vals)); coords = list(d); vals = list(d.values())
        else:
            t = Tensor.from_aos(coords, vals, dimensions=dims, format=spec["format"])
        run["accepted"] = True
        items = list(t.items())
        run["items"] = [[list(c), v] for c, v in items]
        run["format"] = t.format.deparse(); run["dimensions"] = list(t.dimensions)
        extra = []
        for lv in t.taco_indices:
            if lv:
                pos, crd = lv
                for a, b in zip(pos, pos[1:]):
                    seg = list(crd[a:b])
                    if any(x >= y for x, y in zip(seg, seg[1:])):
                        extra.append("stored structure is not sorted/duplicate-free")
        extra = sorted(set(extra))
        if t.to_dok(explicit_zeros=True) != dict(items):
            extra.append("to_dok(explicit_zeros=True) differs from items()")
        if t.to_dok() != {c: v for c, v in items if v != 0.0}:
            extra.append("to_dok() is not the set of non-zero stored entries")
        if not dims and float(t) != dict(items).get((), None):
            extra.append("float(tensor) differs from the stored scalar")
        if spec.get("target"):
            t2 = t.to_format(spec["target"])
            run["converted"] = [[list(c), v] for c, v in t2.items()]
            if not (t == t2):
                extra.append("a tensor is not == to its own to_format copy")
        run["extra"] = extra
    except Exception as e:
        run["accepted"] = False
        run["error"] = type(e).__name__
    want = {}
    for c, v in zip(coords, vals):
        want[c] = want.get(c, 0.0) + v
    run["want"] = [[list(c), v] for c, v in sorted(want.items())]
    out["runs"].append(run)
print("RESULT " + json.dumps(out))
"""
    env = dict(os.environ)
    env["PYTHONPATH"] = os.path.join(os.environ.get("TENSORA_VERIF_REPO", "/repo"), "src")
    r = subprocess.run([sys.executable, "-c", script], input=json.dumps(p), capture_output=True, text=True, env=env, timeout=120)
    if r.returncode < 0:
        return {"status": "crash", "signal": -r.returncode, "stderr": r.stderr[-300:], "confirmed": True}
    if r.returncode != 0:
        # the replay script itself failed (not the code under test, whose exceptions it catches)
        return {"status": "replay-error", "stderr": r.stderr[-300:], "confirmed": False}
    for line in r.stdout.splitlines():
        if line.startswith("RESULT "):
            runs = json.loads(line[7:])["runs"]
            dims = p["dimensions"]
            in_range = all(0 <= c[d] < dims[d] for c in p["coords"] for d in range(len(dims)))
            bad = []
            for got in runs:
                tag = f" (values {got['vals']})" if got is not runs[0] else ""
                if not got["accepted"]:
                    if in_range:
                        bad.append("in-range input rejected: " + got.get("error", "") + tag)
                elif not in_range:
                    bad.append("out-of-range coordinate accepted" + tag)
                else:
                    stored = {tuple(c): v for c, v in got["items"]}
                    want = {tuple(c): v for c, v in got["want"]}
                    if any(stored.get(c, 0.0) != want.get(c, 0.0) for c in set(stored) | set(want)):
                        bad.append(f"content differs: stored {sorted(stored.items())} expected {sorted(want.items())}" + tag)
                    if len(got["items"]) != len(stored):
                        bad.append("a coordinate is stored twice" + tag)
                    if got["format"] != p["format"] or got["dimensions"] != list(dims):
                        bad.append("format/dimensions not as given" + tag)
                    if "converted" in got:
                        conv = {tuple(c): v for c, v in got["converted"]}
                        if any(conv.get(c, 0.0) != want.get(c, 0.0) for c in set(conv) | set(want)):
                            bad.append("to_format changes the content" + tag)
                    bad += [x + tag for x in got.get("extra", [])]
                if bad and got is runs[0]:
                    break
            g0 = runs[0]
            return {"status": "ok", "problems": bad[:6], "confirmed": bool(bad), "got": {k: g0[k] for k in g0 if k != "want"}}
    return {"status": "no-result", "confirmed": False}


def _reader_worker(fmt_text):
    from tensora.format import parse_format

    stats = {"paths": 0, "queries": 0, "solver_s": 0.0, "decisions": 0}
    fmt = parse_format(fmt_text).unwrap()
    try:
        probs = reader_case(fmt, stats)
    except HarnessError as e:
        probs = [{"what": f"harness: {e}", "format": fmt_text, "harness": True}]
    return stats, probs


def _writer_worker(args):
    from tensora.format import parse_format

    fmt_text, dims, entry, k = args
    stats = {"paths": 0, "queries": 0, "solver_s": 0.0, "decisions": 0}
    fmt = parse_format(fmt_text).unwrap()
    try:
        if entry == "from_lol":
            probs = [dict(p, entry="from_lol") for p in lol_case(fmt, dims, stats)]
        else:
            probs = writer_case(fmt, dims, entry, k, stats)
    except HarnessError as e:
        probs = [{"what": f"harness: {e}", "format": fmt_text, "harness": True}]
    return stats, probs


def run(tier):
    import multiprocessing as mp
    import os

    t0 = time.time()
    rep = common.Reporter("C09")
    procs = min(16, os.cpu_count() or 1)
    max_order = 3
    fmts = [f.deparse() if f.order else "" for n in range(max_order + 1) for f in all_formats(n)]
    tot = {"paths": 0, "queries": 0, "solver_s": 0.0, "decisions": 0}
    samples = []
    ctx = mp.get_context("fork")
    wjobs = []
    dim_choices = {0: [()], 1: [(2,), (0,)], 2: [(2, 1), (1, 2), (2, 2)], 3: [(2, 1, 2)]}
    for n in range(0, 3 if tier == "quick" else 4):
        for f in all_formats(n):
            for dims in dim_choices[n]:
                for entry in ("from_aos", "from_dok", "from_soa"):
                    k = 2 if n <= 2 else 1
                    if tier == "quick" and n == 2 and entry != "from_aos" and f.ordering != (1, 0):
                        continue
                    wjobs.append((f.deparse() if n else "", list(dims), entry, k))
    for n, dims in ((1, (2,)), (2, (2, 2)), (2, (1, 2))):
        for f in all_formats(n):
            wjobs.append((f.deparse(), list(dims), "from_lol", 0))
    with ctx.Pool(procs) as pool:
        n_reader = 0
        for st, probs in pool.imap_unordered(_reader_worker, fmts):
            n_reader += 1
            for k in tot:
                tot[k] += st[k]
            for p in probs:
                if p.get("harness"):
                    rep.harness_error(f"reader {p['format']}: {p['what']}")
                else:
                    rp = p.get("replay") or {}
                    if rp.get("status") == "replay-error":
                        rep.harness_error(f"reader replay script failed for {p['format']}: {rp.get('stderr', '')[-200:]}")
                        continue
                    if rp.get("status") == "ok" and not rp.get("problems"):
                        rep.harness_error(f"reader counterexample for {p['format']} did not reproduce on the cffi-backed Tensor: {p['what'][:120]}")
                        continue
                    rep.violation({"name": "reader " + p["format"], "kind": "read-back-differs", "format": p["format"]},
                                  {"property": "C09", "part": "reader", **p})
        n_writer = 0
        n_replayed = {}
        not_replayed = {}
        for st, probs in pool.imap_unordered(_writer_worker, wjobs):
            n_writer += 1
            for k in tot:
                tot[k] += st[k]
            for p in probs:
                if p.get("harness"):
                    rep.harness_error(f"writer {p['format']}: {p['what']}")
                    continue
                kind = p.get("kind", "construction-differs")
                rec = {"name": f"writer {p['format']} {p.get('entry')}", "kind": kind, "format": p["format"]}
                if kind == "out-of-range-coordinate-accepted":
                    from tensora.format import parse_format

                    f = parse_format(p["format"]).unwrap()
                    # which level swallowed the coordinate?  the outermost level (storage order) whose
                    # coordinate is out of range: a dense level never visits it, a compressed level stores it
                    # and the structure validator rejects it
                    firsts = []
                    for c in p["coords"]:
                        for l in range(f.order):
                            d = f.ordering[l]
                            if not (0 <= c[d] < p["dimensions"][d]):
                                firsts.append(f.modes[l])
                                break
                    rec["level_mode"] = "dense" if firsts and all(mm == Mode.dense for mm in firsts) else "compressed"
                replay_key = (kind, rec.get("level_mode"))
                n_replayed[replay_key] = n_replayed.get(replay_key, 0) + 1
                if n_replayed[replay_key] > 3:
                    # same kind as counterexamples already replayed on the real implementation: counted only
                    not_replayed[str(replay_key)] = not_replayed.get(str(replay_key), 0) + 1
                    if common.match_finding(rep.findings, rec) is not None:
                        rep.violation(rec, {"property": "C09", "part": "writer", **p})
                    continue
                if "coords" in p and p.get("entry") != "from_lol":
                    q = dict(p)
                    if "to_format" in p["what"]:
                        q["target"] = p.get("target")
                    rp = replay_writer(q)
                    p["replay"] = rp
                    if not rp.get("confirmed"):
                        rep.harness_error(f"writer counterexample did not reproduce on the cffi-backed Tensor: {p['what'][:100]} {p['format']} {p.get('coords')}")
                        continue
                rep.violation(rec, {"property": "C09", "part": "writer", **p})
            if len(samples) < 4:
                samples.append({"writer_job": wjobs[n_writer - 1] if n_writer <= len(wjobs) else None, "paths": st["paths"]})
    if tot["paths"] == 0:
        rep.harness_error("vacuous: no path")
    coverage = {
        "states": tot["paths"], "transitions": tot["decisions"], "traces_validated_against_impl": 0,
        "samples": samples or [{"note": "none"}],
        "reader_formats": n_reader, "writer_jobs": n_writer, "writer_counterexamples_counted_not_replayed": not_replayed, "queries_discharged": tot["queries"],
        "solver_s": round(tot["solver_s"], 2),
        "bounds": {"reader": f"all formats of order <= {max_order}; <= {N_MAX} stored entries per compressed level; dense extents 0..{D_DENSE}; "
                             "crd values, values and compressed-only dimension sizes symbolic (sizes up to 2^31-1)",
                   "writer": "orders 0..2 (quick) / 0..3 (thorough); <= 2 entries with coordinates in [-1, dim] (value-forked), "
                             "values symbolic; entry points from_aos/from_dok/from_soa, to_format into the mode-flipped reversed-ordering format, "
                             "from_lol on full 2 / 2x2 / 1x2 lists of symbolic values"},
        "functions_encoded": ["Tensor.items / taco_indices / taco_vals / __getstate__ / __setstate__ / format / dimensions",
                              "Tensor.from_aos / from_dok / from_soa, coordinates_to_tree, tree_to_indices_and_values",
                              "taco_structure_to_cffi, allocate_taco_structure (validation logic; FFI calls stubbed)"],
        "stubs": ["tensor_cdefs / tensor_lib replaced by a pure-Python FakeFFI (arrays are Python lists; int32 range enforced)"],
        "known_findings_met": [k["id"] for k in rep.known],
    }
    common.write_evidence("C09", tier, "model_checking", coverage,
                          ["the writer half is bounded-exhaustive over coordinates (the real code hashes them, so the proxy "
                           "value-forks) and symbolic in values; from_numpy/from_scipy_sparse are outside (C boundary)", "z3 trusted; proxy layer and FakeFFI are part of the claim"],
                          time.time() - t0, len(rep.violations))
    print(f"C09 {tier}: reader formats={n_reader} writer jobs={n_writer} paths={tot['paths']} queries={tot['queries']} "
          f"wall={time.time() - t0:.0f}s", flush=True)
    return rep.exit_code()
