"""C05, inductive append step: one execution of each growth fragment from an *arbitrary* valid state.

The IR fragments are produced by the real ``write_crd_assembly`` / ``write_pos_allocation`` for every
output-layer shape of order <= 3.  The pre-state is symbolic: cursor ``p`` and capacity ``cap``
anywhere in int32 with ``0 <= p <= cap = len(array)``, ``cap >= 1``, cells ``[0, p)`` initialised,
dense extents symbolic with the element count fitting int32.  z3 decides that the fragment violates
no obligation (store in bounds, no int32 overflow, realloc of a live base pointer) and leaves the
array at least as long as the next writes need.  This reaches sizes no bounded kernel run can."""

from __future__ import annotations

import itertools

import z3
from tensora.format import Mode
from tensora.ir import types as irt

from .. import kassert, sym
from ..irexec import IRExec
from ..kse import HarnessError, Infeasible, InitState, Machine, Ptr, Violation
from ..sym import INT_MAX, band, icmp


def fragments():
    """(description, kind, Block, names) for every compressed output layer of every mode pattern."""
    from tensora.iteration_graph._write_sparse_ir import write_crd_assembly, write_pos_allocation
    from tensora.iteration_graph.identifiable_expression import TensorLayer
    from tensora.iteration_graph.identifiable_expression import ast as id_ast

    idx = ("i", "j", "k")
    out = []
    for order in (1, 2, 3):
        for modes in itertools.product([Mode.dense, Mode.compressed], repeat=order):
            t = id_ast.Tensor("0_A", "A", idx[:order], tuple(modes))
            pattern = "".join(m.character for m in modes)
            for l, mode in enumerate(modes):
                if mode != Mode.compressed:
                    continue
                layer = TensorLayer(t, l)
                out.append((f"{pattern} level {l}: crd assembly", "crd", write_crd_assembly(layer).finalize(), layer, t))
                out.append((f"{pattern} level {l}: allocation for the level below", "alloc",
                            write_pos_allocation(layer).finalize(), layer, t))
    return out


def run_fragment(desc, kind, block, layer, t, stats, cap_below_2_30=False):
    """Explore the fragment from the arbitrary state; returns list of violations (dicts)."""
    from tensora.iteration_graph._names import dimension_name

    found = []
    solver = z3.Solver()
    solver.set("timeout", 30000)
    p = z3.Int("p")
    cap = z3.Int("cap")
    ivar = z3.Int("coord")
    # which array does the fragment grow?
    dense_dims = []
    for l2 in range(layer.layer + 1, t.order):
        if t.modes[l2] == Mode.compressed:
            break
        dense_dims.append(t.indexes[l2])
    below = layer.layer + len(dense_dims) + 1
    if kind == "crd":
        arr_name, cap_name, elem, bonus = layer.crd_name().name, layer.crd_capacity_name().name, "int", None
    elif below == t.order:
        arr_name, cap_name, elem, bonus = layer.vals_name().name, layer.vals_capacity_name().name, "float", 0
    else:
        from tensora.iteration_graph.identifiable_expression import TensorLayer

        tl = TensorLayer(t, below)
        arr_name, cap_name, elem, bonus = tl.pos_name().name, tl.pos_capacity_name().name, "int", 1
    dims = {d: z3.Int(f"{d}_dim") for d in dense_dims}
    block_elems = 1
    for d in dense_dims:
        block_elems = block_elems * dims[d]
    base = [p >= 0, cap >= 1, cap <= INT_MAX, p <= INT_MAX - 1, ivar >= 0, ivar <= INT_MAX]
    if cap_below_2_30:
        base.append(cap <= 2**30 - 1)  # doubling cannot overflow: explores the growth path to its end
    for d in dims.values():
        base += [d >= 0, d <= INT_MAX]
    if kind == "crd":
        base.append(p <= cap)  # cells [0, p) are in use
        needed = p + 1
    else:
        needed = (p + 1) * block_elems + bonus
        # the structure described so far fits: p blocks (+ bonus) are in use, and the next block's
        # element count fits int32 (the property's own precondition)
        base += [p * block_elems + bonus <= cap, needed <= INT_MAX]
    work = [[]]
    while work:
        prefix = work.pop()
        m = Machine(prefix, solver=solver)
        solver.push()
        try:
            for c in base:
                m.assume(c)
            b = m.heap.new(arr_name, elem, cap, owner="kernel")
            b.base = z3.Array(arr_name + "_data", sym.IntSort, sym.IntSort if elem == "int" else sym.RealSort)
            b.init = InitState()
            used = p if kind == "crd" else p * block_elems + bonus
            b.init.layers = [((used,), z3.K(sym.IntSort, z3.BoolVal(True)))]
            ex = IRExec(m)
            ex.env = {layer.layer_pointer().name: p, cap_name: cap, arr_name: Ptr(b.bid, 0),
                      t.indexes[layer.layer]: ivar}
            ex.types = {layer.layer_pointer().name: irt.integer, cap_name: irt.integer,
                        arr_name: irt.Pointer(irt.integer if elem == "int" else irt.float),
                        t.indexes[layer.layer]: irt.integer}
            for d, v in dims.items():
                ex.env[dimension_name(d).name] = v
                ex.types[dimension_name(d).name] = irt.integer
            try:
                ex.ex(block)
                m.flush_obligations()
                newp = ex.env[arr_name]
                nb = m.heap[newp.block]
                conds = [(icmp("==", sym.simp_int(newp.off), 0), ("array is an interior pointer",)),
                         (icmp(">=", nb.length, needed), ("array shorter than the next writes need", desc)),
                         (icmp("==", ex.env[cap_name], nb.length), ("capacity variable disagrees with the allocation", desc))]
                if kind == "crd":
                    conds.append((sym.simp_bool(nb.init.cond(p)), ("appended cell not initialised",)))
                kassert.discharge(m, conds, "append-invariant")
                stats["paths"] += 1
            except Violation as v:
                model = v.model
                wit = {}
                if model is not None:
                    for name, term in [("p", p), ("cap", cap)] + [(f"{d}_dim", x) for d, x in dims.items()]:
                        wit[name] = model.eval(term, model_completion=True).as_long()
                found.append({"fragment": desc, "kind": v.kind, "label": repr(v.label), "witness": wit})
        except Infeasible:
            pass
        finally:
            solver.pop()
            stats["queries"] += m.stats.queries
            stats["solver_s"] += m.stats.solver_s
        work.extend(m.pending)
    return found


def replay_concrete(desc, kind, block, layer, t, wit):
    """Unit-level replay on the concrete IR machine (not through the API: the state needs ~2^30
    stored entries)."""
    from tensora.iteration_graph._names import dimension_name

    m = Machine(concrete=True)
    dense_dims = []
    for l2 in range(layer.layer + 1, t.order):
        if t.modes[l2] == Mode.compressed:
            break
        dense_dims.append(t.indexes[l2])
    below = layer.layer + len(dense_dims) + 1
    if kind == "crd":
        arr_name, cap_name, elem = layer.crd_name().name, layer.crd_capacity_name().name, "int"
    elif below == t.order:
        arr_name, cap_name, elem = layer.vals_name().name, layer.vals_capacity_name().name, "float"
    else:
        from tensora.iteration_graph.identifiable_expression import TensorLayer

        tl = TensorLayer(t, below)
        arr_name, cap_name, elem = tl.pos_name().name, tl.pos_capacity_name().name, "int"
    b = m.heap.new(arr_name, elem, wit["cap"], owner="kernel")
    b.init = InitState(all=True)
    ex = IRExec(m)
    ex.env = {layer.layer_pointer().name: wit["p"], cap_name: wit["cap"], arr_name: Ptr(b.bid, 0),
              t.indexes[layer.layer]: 0}
    ex.types = {layer.layer_pointer().name: irt.integer, cap_name: irt.integer,
                arr_name: irt.Pointer(irt.integer if elem == "int" else irt.float), t.indexes[layer.layer]: irt.integer}
    for d in dense_dims:
        ex.env[dimension_name(d).name] = wit.get(f"{d}_dim", 1)
        ex.types[dimension_name(d).name] = irt.integer
    try:
        ex.ex(block)
    except Violation as v:
        return {"reproduced": True, "violation": repr(v.label)}
    nb = m.heap[ex.env[arr_name].block]
    if kind == "crd":
        needed = wit["p"] + 1
    else:
        prod = 1
        for d in dense_dims:
            prod *= wit.get(f"{d}_dim", 1)
        needed = (wit["p"] + 1) * prod + (0 if elem == "float" else 1)
    return {"reproduced": nb.length < needed, "new_length": nb.length, "needed": needed}


def run(rep):
    stats = {"fragments": 0, "paths": 0, "queries": 0, "solver_s": 0.0}
    samples = []
    for desc, kind, block, layer, t in fragments():
        stats["fragments"] += 1
        try:
            found = run_fragment(desc, kind, block, layer, t, stats)
            found += [f for f in run_fragment(desc, kind, block, layer, t, stats, cap_below_2_30=True)]
        except HarnessError as e:
            rep.harness_error(f"append step {desc}: {e}")
            continue
        for f in found:
            vk = "capacity-doubling-overflows-int32" if "int32 overflow" in f["label"] else "append-step"
            rp = replay_concrete(desc, kind, block, layer, t, f["witness"]) if f["witness"] else {"reproduced": False}
            f["replay"] = rp
            if not rp.get("reproduced") and vk != "append-step":
                rep.harness_error(f"append-step counterexample did not reproduce on the concrete IR machine: {f}")
                continue
            if vk == "append-step" and not rp.get("reproduced"):
                rep.harness_error(f"append-step counterexample did not reproduce on the concrete IR machine: {f}")
                continue
            rep.violation({"name": desc, "kind": vk}, {"property": "C05", "part": "inductive append step", **f})
            if len(samples) < 3:
                samples.append(f)
    stats["solver_s"] = round(stats["solver_s"], 2)
    return {"inductive_append_step": {**stats, "samples": samples,
                                      "bounds": "p, cap, dense extents anywhere in int32; element count of the next block <= 2^31-1"}}
