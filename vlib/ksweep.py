"""Sweep of generated kernels: (request, dimension vector) tasks on a process pool, each explored
path-by-path with the assertion families a property needs."""

from __future__ import annotations

import json
import multiprocessing as mp
import os
import time
import traceback

from . import explore, kassert, replay
from .explore import Budget, Setup, cap_sentinel, dim_vectors, index_classes, run_paths, unwind_bound
from .irexec import IRExec
from .kse import HarnessError, Infeasible, Machine, Stats, Violation
from .request import Request, compile_request

FAMILIES = ("safety", "value", "canon", "support", "handback")


def _walk_statements(s, out):
    from tensora.ir import ast as ir

    out.append(s)
    if isinstance(s, ir.Block):
        for x in s.statements:
            _walk_statements(x, out)
    elif isinstance(s, ir.Branch):
        _walk_statements(s.if_true, out)
        _walk_statements(s.if_false, out)
    elif isinstance(s, ir.Loop):
        _walk_statements(s.body, out)


def run_task(task: dict) -> dict:
    """Worker entry.  task: request, kinds(program), dimvec, N, families, max_paths, time_budget."""
    t0 = time.time()
    req = Request.make(task["assignment"], task["formats"])
    res = {"request": req.asdict(), "dimvec": task["dimvec"], "N": task["N"], "status": "ok",
           "stats": {}, "wall_s": 0.0, "spec": task.get("spec"), "symbolic_dimension": task.get("symbolic_dimension", False)}
    try:
        comp = compile_request(req, kinds=("evaluate",), optimise=True)
        if comp.refusal:
            res["status"] = "refused"
            res["refusal"] = comp.refusal
            return res
        out = _explore_evaluate(comp, task)
        res.update(out)
    except HarnessError as e:
        res["status"] = "harness-error"
        res["error"] = str(e)
    except Exception as e:  # noqa: BLE001
        res["status"] = "harness-error"
        res["error"] = f"{type(e).__name__}: {e}\n{traceback.format_exc()[-1500:]}"
    res["wall_s"] = round(time.time() - t0, 3)
    return res


def _explore_evaluate(comp, task):
    families = set(task["families"])
    cls = index_classes(comp.assignment)
    dv = dict(task["dimvec"])
    for c, v in list(dv.items()):
        if v == "sym":
            import z3 as _z3

            dv[c] = _z3.Int(f"dim_{c}")  # a sparse-only dimension: free in [0, 2^31-1]
    setup = Setup(comp, dv, task["N"])
    fn = comp.functions["evaluate"]
    args = list(comp.formats.keys())
    sent = cap_sentinel()
    idims = {i: dv[cls[i]] for i in cls}
    spec_asg = comp.assignment
    if task.get("spec"):
        # the specification comes from the caller (C11: from the operator), not from the request
        from tensora.expression import parse_assignment

        spec_asg = parse_assignment(task["spec"]).unwrap()
        tdims = setup.dims_of(comp.target)
        idims = {i: tdims[k] for k, i in enumerate(spec_asg.target.indexes)}
    stats = Stats()
    covered = set()
    flags = {"nonempty": False, "grew": False, "checked_value": 0, "checked_support": 0,
             "checked_canon": 0}
    bound = unwind_bound(setup)
    all_stmts = []
    _walk_statements(fn.body, all_stmts)
    deadline = time.process_time() + task.get("time_budget", 600)
    out = {}

    solver = setup.shared_solver(task.get("solver_timeout_ms", 60000))

    def mk(prefix):
        m = Machine(prefix, max_loop_iter=bound, solver=solver)
        m.shared_solver = True
        return m

    def body(m):
        setup.apply(m)
        ex = IRExec(m, sent)
        try:
            ret = ex.run(fn, args)
            m.flush_obligations()
            if ret != 0:
                raise Violation("return", ("kernel returned non-zero", ret), kassert._model(m))
        finally:
            covered.update(ex.covered)
        if not flags["grew"]:
            for k, n, o in m.alloc_log:
                if k == "realloc" and o != 0 and _grew(m, n, o):
                    flags["grew"] = True
                    break
        conds = []
        exact = "canon" in families
        if families & {"canon", "handback", "value", "support"}:
            counts = kassert.output_shape(m, comp.target, exact, conds)
            flags["checked_canon"] += kassert.discharge(m, conds, "structure")
            if any(c > 0 for c in counts) or not counts:
                flags["nonempty"] = True
        eo = kassert.input_entries(m, setup.infos, setup.cache.setdefault("entries", {}))
        if "value" in families:
            kassert.check_value(m, comp.target, spec_asg, counts, eo, idims, setup.cache)
            flags["checked_value"] += 1
        if "support" in families:
            n = kassert.check_support(m, comp.target, spec_asg, counts, eo)
            flags["checked_support"] += n or 0
        if task.get("want_witness", True) and ("witness" not in out or not out.get("witness_nonempty")):
            _capture_witness(m, setup, out, counts if families & {"canon", "handback", "value", "support"} else None)

    try:
        run_paths(mk, body, max_paths=task.get("max_paths"), deadline=deadline, stats=stats)
    except Violation as v:
        out["status"] = "violation"
        out["violation"] = {"kind": v.kind, "label": _jsonable(v.label), "detail": _jsonable(v.detail)}
        if v.model is not None:
            out["violation"]["decoded"] = _jsonable(explore.decode_inputs(v.model, setup))
    except Budget as b:
        out["status"] = "budget"
        out["error"] = str(b)
    out["stats"] = stats.asdict()
    ids = {id(s) for s in all_stmts}
    out["coverage"] = {"statements": len(ids), "reached": len(ids & covered)}
    out["flags"] = flags
    if kassert.CROSS["queries"]:
        flags["cvc5_queries"] = kassert.CROSS["queries"]
        flags["cvc5_agree"] = kassert.CROSS["agree"]
        flags["cvc5_inconclusive"] = kassert.CROSS["inconclusive"]
        if kassert.CROSS["disagree"]:
            out["status"] = "harness-error"
            out["error"] = "solver disagreement: " + "; ".join(kassert.CROSS["disagree"][:3])
        for k in ("n", "queries", "agree", "inconclusive"):
            kassert.CROSS[k] = 0
        kassert.CROSS["disagree"] = []
    return out


def _capture_witness(m, setup, out, counts):
    """A concrete input that follows this (verified) path, preferring non-zero values."""
    import z3

    prefer = []
    for info in setup.infos.values():
        for e, _ in info.hot:
            prefer.append(e >= 0)
    nonempty = bool(counts) and any(c > 0 for c in counts)
    r = m.solver.check(*prefer) if prefer else m.solver.check()
    if r != z3.sat:
        r = m.solver.check()
        if r != z3.sat:
            return
    out["witness"] = _jsonable(explore.decode_inputs(m.solver.model(), setup))
    out["witness_nonempty"] = nonempty


def _grew(m, new_bid, old_bid):
    import z3

    from .sym import zi

    nl, ol = m.heap[new_bid].length, m.heap[old_bid].length
    if isinstance(nl, int) and isinstance(ol, int):
        return nl > ol
    return m.check(zi(nl) <= zi(ol)) == z3.unsat


def _jsonable(x):
    from fractions import Fraction

    if isinstance(x, (str, int, float, bool)) or x is None:
        return x
    if isinstance(x, Fraction):
        return str(x)
    if isinstance(x, dict):
        return {str(k): _jsonable(v) for k, v in x.items()}
    if isinstance(x, (list, tuple, set)):
        return [_jsonable(v) for v in x]
    return str(x)


def build_tasks(requests, D, N, families, dim_mode="corners", max_paths=20000, time_budget=600, symbolic_dims=False):
    """One task per (request, dimension vector).  Requests are compiled once here to find the
    index classes (refusals become a single task that records the refusal)."""
    tasks = []
    for r in requests:
        try:
            comp = compile_request(r)
        except Exception as e:  # noqa: BLE001
            tasks.append({"assignment": r.assignment, "formats": dict(r.formats), "dimvec": {},
                          "N": N, "families": list(families), "precompile_error": repr(e)})
            continue
        if comp.refusal:
            tasks.append({"assignment": r.assignment, "formats": dict(r.formats), "dimvec": {},
                          "N": N, "families": list(families), "max_paths": max_paths,
                          "time_budget": time_budget})
            continue
        classes = sorted(set(index_classes(comp.assignment).values()))
        for dv in dim_vectors(classes, D, dim_mode):
            tasks.append({"assignment": r.assignment, "formats": dict(r.formats), "dimvec": dv,
                          "N": N, "families": list(families), "max_paths": max_paths,
                          "time_budget": time_budget})
        if symbolic_dims:
            # indexes every tensor stores only in compressed levels and every term mentions: their size is
            # a free symbol (no dense loop may depend on it), the other sizes stay at D
            from .kprog import eligible_classes

            el = eligible_classes(comp)
            if el and len(r.formats) <= 3:
                dv = {c: ("sym" if c in el else D) for c in classes}
                tasks.append({"assignment": r.assignment, "formats": dict(r.formats), "dimvec": dv,
                              "N": N, "families": list(families), "max_paths": max_paths,
                              "time_budget": time_budget, "symbolic_dimension": True})
    return tasks


def _cost_estimate(task):
    n = task.get("N", 2)
    c = 4.0 if task.get("symbolic_dimension") else 1.0
    for name, f in task.get("formats", {}).items():
        c *= (n + 1) ** f.count("s")
    for v in task.get("dimvec", {}).values():
        c *= max(1, v if isinstance(v, int) else 2)
    return c


def run_tasks(tasks, worker=run_task, procs=None, wall_budget=None):
    procs = procs or min(16, os.cpu_count() or 1)
    results = []
    t0 = time.time()
    ctx = mp.get_context("fork")
    tasks = sorted(tasks, key=_cost_estimate, reverse=True)
    if wall_budget is not None:
        # under a wall budget: interleave cheap and expensive tasks so that a cut does not drop one class
        half = len(tasks) // 2
        inter = []
        for a, b in zip(tasks[:half], reversed(tasks[half:])):
            inter += [a, b]
        inter += tasks[2 * half:] if len(tasks) % 2 else []
        if len(inter) == len(tasks):
            tasks = inter
    with ctx.Pool(procs) as pool:
        it = pool.imap_unordered(worker, tasks, chunksize=1)
        for r in it:
            results.append(r)
            if wall_budget is not None and time.time() - t0 > wall_budget:
                pool.terminate()
                break
    return results
