"""Evidence files, known findings, replay files, exit codes."""

from __future__ import annotations

import json
import os
import time

HERE = os.path.dirname(os.path.dirname(os.path.abspath(__file__)))
EVIDENCE_DIR = os.environ.get("VERIF_EVIDENCE_DIR") or os.path.join(HERE, "evidence")
REPLAY_DIR = os.environ.get("VERIF_REPLAY_DIR") or os.path.join(HERE, "replays")
FINDINGS_FILE = os.path.join(HERE, "known_findings.json")

EXIT_OK = 0
EXIT_VIOLATION = 1
EXIT_HARNESS = 2


def seed() -> int:
    try:
        return int(os.environ.get("VERIF_SEED", "0"))
    except ValueError:
        return 0


def write_evidence(pid: str, tier: str, level: str, coverage: dict, assumptions: list, wall_s: float,
                   violations: int, extra: dict | None = None):
    os.makedirs(EVIDENCE_DIR, exist_ok=True)
    doc = {
        "property_id": pid,
        "tier": tier,
        "seed": seed(),
        "level": level,
        "coverage": coverage,
        "assumptions": assumptions,
        "wall_s": round(wall_s, 2),
        "violations": violations,
    }
    if extra:
        doc.update(extra)
    path = os.path.join(EVIDENCE_DIR, f"{pid}.json")
    tmp = path + ".tmp"
    with open(tmp, "w") as f:
        json.dump(doc, f, indent=1, default=str)
    os.replace(tmp, path)
    return path


def write_replay(pid: str, name: str, doc: dict) -> str:
    os.makedirs(REPLAY_DIR, exist_ok=True)
    safe = "".join(ch if ch.isalnum() else "_" for ch in name)[:80]
    path = os.path.join(REPLAY_DIR, f"{pid}_{safe}_{int(time.time() * 1000) % 10**9}.json")
    with open(path, "w") as f:
        json.dump(doc, f, indent=1, default=str)
    return path


def load_findings(pid: str):
    if not os.path.exists(FINDINGS_FILE):
        return []
    with open(FINDINGS_FILE) as f:
        doc = json.load(f)
    return [e for e in doc.get("findings", []) if e.get("property") == pid]


def match_finding(findings, record: dict):
    """An open finding matches a violation record when every key of its ``match`` is equal to
    (or, for lists, contains) the record's value.  Fixed entries never match."""
    for e in findings:
        if e.get("status") != "open":
            continue
        ok = True
        for k, want in e.get("match", {}).items():
            got = record.get(k)
            if isinstance(want, list):
                if got not in want:
                    ok = False
                    break
            elif got != want:
                ok = False
                break
        if ok:
            return e
    return None


class Reporter:
    """Collects violations, separates known findings, prints the contract lines."""

    MAX_REPORTED = 25

    def __init__(self, pid: str):
        self.pid = pid
        self.suppressed = 0
        self.findings = load_findings(pid)
        self.violations = []  # unlisted
        self.known = []
        self.harness_errors = []

    def violation(self, record: dict, replay_doc: dict):
        hit = match_finding(self.findings, record)
        if hit is not None:
            if hit["id"] not in [k["id"] for k in self.known]:
                self.known.append(hit)
                print(f"KNOWN-FINDING: property={self.pid} {hit['id']}: {hit['what']}", flush=True)
            return
        if len(self.violations) >= self.MAX_REPORTED:
            # further violations are counted, not printed (each printed one has a replay file)
            self.suppressed += 1
            self.violations.append({"record": record, "replay": None})
            return
        path = write_replay(self.pid, record.get("name", "violation"), replay_doc)
        self.violations.append({"record": record, "replay": path})
        print(f"VIOLATION property={self.pid} replay={path}", flush=True)

    def harness_error(self, what: str):
        self.harness_errors.append(what)
        print(f"HARNESS-ERROR property={self.pid} {what}", flush=True)

    def exit_code(self) -> int:
        if self.violations:
            return EXIT_VIOLATION
        if self.harness_errors:
            return EXIT_HARNESS
        return EXIT_OK
