"""IR front end of E1: executes a ``tensora.ir.ast.FunctionDefinition`` on a Machine."""

from __future__ import annotations

import z3
from tensora.ir import ast as ir
from tensora.ir import types as irt

from . import sym
from .kse import (
    FieldRef,
    HarnessError,
    LevelRef,
    Machine,
    PathEnd,
    Ptr,
    TRef,
    Violation,
)
from .sym import PW, UF, band, bnot, bor, icmp, ite, simp_bool, simp_int

CMP = {
    ir.Equal: "==",
    ir.NotEqual: "!=",
    ir.GreaterThan: ">",
    ir.LessThan: "<",
    ir.GreaterThanOrEqual: ">=",
    ir.LessThanOrEqual: "<=",
}


def is_float(v):
    return isinstance(v, (PW, UF))


def elem_of(t: irt.Type) -> str:
    if isinstance(t, irt.Integer):
        return "int"
    if isinstance(t, irt.Float):
        return "float"
    raise HarnessError(f"unsupported array element type {t}")


class IRExec:
    def __init__(self, m: Machine, cap_sentinel=None):
        self.m = m
        self.env: dict[str, object] = {}
        self.types: dict[str, irt.Type] = {}
        self.cap_sentinel = cap_sentinel
        self.loop_iter_total = 0
        self.stmt_count = 0
        self.iter_trace = []  # (loop id, iteration count) for C16
        self.covered = set()

    # ------------------------------------------------------------ expressions
    def ev(self, e):
        m = self.m
        if self.cap_sentinel is not None and e == self.cap_sentinel and m.cap0 is not None:
            return m.cap0
        t = type(e)
        if t is ir.Variable:
            if e.name not in self.env:
                raise Violation("ill-formed", ("kernel uses an undeclared variable", e.name),
                                None if m.concrete else (m.check(), m.solver.model())[1])
            v = self.env[e.name]
            if v is None:
                m.oblige(False, ("read of uninitialised variable", e.name))
            return v
        if t is ir.IntegerLiteral:
            return e.value
        if t is ir.FloatLiteral:
            return m.falg.const(sym.frac_of_float(e.value))
        if t is ir.BooleanLiteral:
            return e.value
        if t is ir.AttributeAccess:
            base = self.ev(e.target)
            if not isinstance(base, TRef):
                raise HarnessError("attribute access on non-tensor")
            ts = m.tensors[base.name]
            if e.attribute == "dimensions":
                return ts.dimensions
            if e.attribute == "vals":
                return ts.vals
            if e.attribute == "indices":
                return FieldRef(base.name, "indices")
            if e.attribute == "order":
                return ts.order
            raise HarnessError(f"unsupported attribute {e.attribute}")
        if t is ir.ArrayIndex:
            base = self.ev(e.target)
            idx = self.ev(e.index)
            return self.load_index(base, idx, e)
        if t in (ir.Add, ir.Subtract, ir.Multiply):
            a = self.ev(e.left)
            b = self.ev(e.right)
            return self.arith(t, a, b, e)
        if t in CMP:
            a = self.ev(e.left)
            b = self.ev(e.right)
            if is_float(a) or is_float(b) or isinstance(a, Ptr) or isinstance(b, Ptr):
                raise HarnessError("comparison of non-integers")
            if isinstance(a, bool) or isinstance(a, z3.BoolRef):
                return sym.beq(a, b) if CMP[t] == "==" else bnot(sym.beq(a, b))
            return icmp(CMP[t], a, b)
        if t is ir.And:
            a = self.ev(e.left)
            if isinstance(a, bool):
                return self.ev(e.right) if a else False
            # short circuit: the right operand is evaluated only where the left one holds
            if m.decide(a):
                return self.ev(e.right)
            return False
        if t is ir.Or:
            a = self.ev(e.left)
            if isinstance(a, bool):
                return True if a else self.ev(e.right)
            if m.decide(a):
                return True
            return self.ev(e.right)
        if t is ir.Min:
            a = self.ev(e.left)
            b = self.ev(e.right)
            return simp_int(ite(icmp("<", a, b), a, b))
        if t is ir.Max:
            a = self.ev(e.left)
            b = self.ev(e.right)
            return simp_int(ite(icmp(">", a, b), a, b))
        if t is ir.BooleanToInteger:
            a = self.ev(e.expression)
            return simp_int(ite(a, 1, 0))
        if t is ir.ArrayAllocate:
            n = self.ev(e.n_elements)
            return m.allocate(elem_of(e.element_type), n, ("ArrayAllocate",))
        if t is ir.ArrayReallocate:
            old = self.ev(e.old)
            n = self.ev(e.n_elements)
            if not isinstance(old, Ptr):
                raise HarnessError("realloc of non-pointer")
            return m.reallocate(old, elem_of(e.element_type), n, ("ArrayReallocate",))
        raise HarnessError(f"unsupported expression {t.__name__}")

    def arith(self, t, a, b, e):
        m = self.m
        if isinstance(a, Ptr):
            if t is ir.Add and sym.is_int(b):
                return Ptr(a.block, simp_int(sym.iadd(a.off, b)))
            raise HarnessError("unsupported pointer arithmetic")
        if is_float(a) or is_float(b):
            if not is_float(a):
                a = m.falg.from_int(a)
            if not is_float(b):
                b = m.falg.from_int(b)
            if t is ir.Add:
                return m.falg.add(a, b)
            if t is ir.Subtract:
                return m.falg.sub(a, b)
            return m.falg.mul(a, b)
        op = "+" if t is ir.Add else "-" if t is ir.Subtract else "*"
        return m.int_op(op, a, b, (t.__name__,))

    def load_index(self, base, idx, e):
        m = self.m
        if isinstance(base, FieldRef):
            idx = simp_int(idx)
            if not isinstance(idx, int):
                raise HarnessError("symbolic level index")
            ts = m.tensors[base.tensor]
            if not (0 <= idx < ts.order):
                m.oblige(False, ("indices[] out of bounds", base.tensor, idx))
            return LevelRef(base.tensor, idx)
        if isinstance(base, LevelRef):
            idx = simp_int(idx)
            if not isinstance(idx, int):
                raise HarnessError("symbolic slot index")
            ts = m.tensors[base.tensor]
            lv = ts.levels[base.level]
            if lv is None or not (0 <= idx < 2):
                m.oblige(False, ("indices[l][k] out of bounds (dense level has no slots)",
                                 base.tensor, base.level, idx))
            return lv[idx]
        if isinstance(base, Ptr):
            return m.load(Ptr(base.block, sym.iadd(base.off, idx)), ("ArrayIndex",))
        raise HarnessError(f"index of {type(base).__name__}")

    # ------------------------------------------------------------ statements
    def coerce(self, value, ty):
        if isinstance(ty, irt.Float) and not is_float(value):
            if isinstance(value, (bool, z3.BoolRef)):
                raise HarnessError("bool to float")
            return self.m.falg.from_int(value)
        return value

    def assign(self, target, value):
        m = self.m
        t = type(target)
        if t is ir.Variable:
            if target.name not in self.env:
                raise Violation("ill-formed", ("kernel assigns an undeclared variable", target.name),
                                None if m.concrete else (m.check(), m.solver.model())[1])
            self.env[target.name] = self.coerce(value, self.types.get(target.name))
            return
        if t is ir.ArrayIndex:
            base = self.ev(target.target)
            idx = self.ev(target.index)
            if isinstance(base, Ptr):
                m.store(Ptr(base.block, sym.iadd(base.off, idx)), value, ("Assignment",))
                return
            if isinstance(base, LevelRef):
                idx = simp_int(idx)
                ts = m.tensors[base.tensor]
                lv = ts.levels[base.level]
                if lv is None or not isinstance(idx, int) or not (0 <= idx < 2):
                    m.oblige(False, ("store to indices[l][k] out of bounds", base.tensor))
                if not ts.is_output:
                    m.oblige(False, ("store into an input tensor's struct", base.tensor))
                if m.frozen_alloc:
                    # C04: compute must leave the structure pointers alone
                    old = lv[idx]
                    same = isinstance(value, Ptr) and value.block == old.block and \
                        simp_bool(icmp("==", value.off, old.off)) is True
                    if not same:
                        m.oblige(False, ("structure pointer changed", base.tensor, base.level, idx))
                if not isinstance(value, Ptr):
                    raise HarnessError("non-pointer stored to indices slot")
                lv[idx] = value
                return
            raise HarnessError("unsupported store target")
        if t is ir.AttributeAccess:
            base = self.ev(target.target)
            if not isinstance(base, TRef):
                raise HarnessError("attribute store on non-tensor")
            ts = m.tensors[base.name]
            if not ts.is_output:
                m.oblige(False, ("store into an input tensor's struct", base.name))
            if target.attribute == "vals":
                if not isinstance(value, Ptr):
                    raise HarnessError("non-pointer stored to vals")
                if m.frozen_alloc:
                    old = ts.vals
                    same = value.block == old.block and simp_bool(icmp("==", value.off, old.off)) is True
                    if not same:
                        m.oblige(False, ("vals pointer changed", base.name))
                ts.vals = value
                return
            m.oblige(False, ("store to immutable struct field", base.name, target.attribute))
        raise HarnessError(f"unsupported assignment target {t.__name__}")

    def ex(self, s):
        m = self.m
        t = type(s)
        self.stmt_count += 1
        self.covered.add(id(s))
        if t is ir.Block:
            for x in s.statements:
                self.ex(x)
            return
        if t is ir.Declaration:
            self.env[s.name.name] = None
            self.types[s.name.name] = s.type
            return
        if t is ir.DeclarationAssignment:
            v = self.ev(s.value)
            name = s.target.name.name
            self.types[name] = s.target.type
            self.env[name] = self.coerce(v, s.target.type)
            return
        if t is ir.Assignment:
            v = self.ev(s.value)
            self.assign(s.target, v)
            return
        if t is ir.Branch:
            c = self.ev(s.condition)
            if m.decide(c):
                self.ex(s.if_true)
            else:
                self.ex(s.if_false)
            return
        if t is ir.Loop:
            n = 0
            while True:
                c = self.ev(s.condition)
                if not m.decide(c):
                    break
                n += 1
                self.loop_iter_total += 1
                m.stats.loop_iters += 1
                if n > m.max_loop_iter:
                    m.flush_obligations()
                    model = None
                    if not m.concrete:
                        m.check()
                        model = m.solver.model()
                    raise Violation("unwind", ("loop still running after", m.max_loop_iter, "iterations"), model)
                self.ex(s.body)
            self.iter_trace.append((id(s), n))
            return
        if t is ir.Return:
            raise PathEnd(self.ev(s.value))
        if isinstance(s, ir.Expression):
            self.ev(s)
            return
        raise HarnessError(f"unsupported statement {t.__name__}")

    def run(self, fn: ir.FunctionDefinition, args: list[str]):
        """Run ``fn`` with its parameters bound to the tensor structs named ``args``."""
        self.env = {}
        self.types = {}
        if len(args) != len(fn.parameters):
            raise HarnessError("arity mismatch")
        for p, a in zip(fn.parameters, args):
            self.env[p.name.name] = TRef(a) if isinstance(a, str) else a
            self.types[p.name.name] = p.type
        try:
            self.ex(fn.body)
        except PathEnd as pe:
            return pe.value
        self.m.oblige(False, ("function ended without return",))
