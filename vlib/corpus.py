"""The program corpus: the one axis that is enumerated (DESIGN.md §3)."""

from __future__ import annotations

import itertools
import random
import re

from .request import Request

# (assignment, tag)   tensor orders are read from the text
SHAPES_CORE = [
    "a(i) = b(i)",
    "a(i) = b(i) + c(i)",
    "a(i) = b(i) - c(i)",
    "a(i) = b(i) * c(i)",
    "a(i) = b(i) * c(i) + d(i)",
    "a(i) = (b(i) + c(i)) * d(i)",
    "a(i) = b(i) - c(i) * d(i)",
    "a(i) = b(i) + c(i) + d(i)",
    "a(i) = b(i) * c(i) * d(i)",
    "a(i) = b(i) * (c(i) + d(i))",
    "a(i) = b(i) - (c(i) - d(i))",
    "a(i) = b(i) * c()",
    "a() = b(i) * c(i)",
    "a() = b(i)",
    "a() = b() * c()",
    "a(i) = 2 * b(i) + 1.5",
    "a(i) = b(i) + 1",
    "a(i) = b(i) * 2",
    "a(i) = b(i) - 0.5 * c(i)",
    "a(i) = b(i) * b(i)",
    "a(i) = b(i) + b(i)",
    "A(i,j) = B(i,j)",
    "A(i,j) = B(j,i)",
    "A(i,j) = B(i,j) + C(i,j)",
    "A(i,j) = B(i,j) - C(i,j)",
    "A(i,j) = B(i,j) * C(i,j)",
    "A(i,j) = B(i,j) + C(j,i)",
    "A(i,j) = B(i,j) * C(j,i)",
    "A(i,j) = B(i,j) + B(j,i)",
    "A(i,j) = b(i) * c(j)",
    "A(i,j) = B(i,j) + c(i)",
    "A(i,j) = B(i,j) * c(j)",
    "A(i,j) = B(i,j) * c(j) + d(i)",
    "A(i,j) = B(i,j) * 2 + 1",
    "y(i) = A(i,j) * x(j)",
    "y(j) = A(i,j) * x(i)",
    "y(i) = A(i,j) * x(j) + d(i)",
    "y(i) = A(i,j) * x(j) + 1",
    "y(i) = A(i,j)",
    "y(j) = A(i,j)",
    "o() = A(i,j)",
    "o() = A(i,j) * B(i,j)",
    "A(i,k) = B(i,j) * C(j,k)",
    "A(i,k) = B(i,j) * C(k,j)",
    "A(i,k) = B(i,j) * C(j,k) + D(i,k)",
    "o() = X() + Y(k) + Z(k)",
    "o() = Y(k) + Z(k) + X()",
    "o() = Y(k) + X() + Z(k)",
    "o() = X() - Y(k) - Z(k)",
    "a(i) = X(i) + Y(i,k) + Z(i,k)",
    "a(i) = X(i) + Y(i,k) - Z(k,i)",
    "o() = (X() + Y(k)) * Z(k)",
    "a(i) = b(i) * c(k) + d(i)",
    "a(i) = 2 * b(i)",
    "a(i) = 2 * b(i) * c(i)",
    "a(i) = b(i) * c(i) - d(i)",
    "a(i) = b(i) + c(i) + d(i) + e(i)",
    "A(i,j) = 2 * B(i,j) * C(i,j)",
    "A(i,j) = B(i,j) * C(i,j) - D(i,j)",
    "A(i,j) = c(j) * B(i,j)",
    "A(i,j) = B(i,j) + C(i,j) + D(i,j)",
    "a(i) = B(i,j) * C(j,k) * d(k)",
    "o() = X() - Y(k) + Z(k)",
    "a(i) = b(i) - C(i,k) - D(i,k)",
]

SHAPES_ORDER3 = [
    "A(i,j,k) = B(i,j,k)",
    "A(i,j,k) = B(j,k,i)",
    "A(i,j,k) = B(k,i,j)",
    "A(i,j,k) = B(k,j,i)",
    "A(i,j,k) = B(i,j,k) + C(i,j,k)",
    "A(i,j,k) = B(i,j,k) * C(i,j,k)",
    "A(i,j,k) = B(i,j,k) * c(k)",
    "A(i,j) = B(i,j,k) * c(k)",
    "A(i,j) = B(i,j,k)",
    "a(i) = B(i,j,k)",
    "A(i,j) = B(i,k,l) * C(k,j) * D(l,j)",
    "a(i) = B(i,j,k) * C(j,k)",
    "A(i,j,k) = D(i,j,l) * C(l,k)",
]

_TENSOR = re.compile(r"([A-Za-z][A-Za-z0-9]*)\(([^)]*)\)")


def tensor_orders(assignment: str) -> dict[str, int]:
    out = {}
    for name, args in _TENSOR.findall(assignment):
        n = 0 if args.strip() == "" else len(args.split(","))
        out.setdefault(name, n)
    return out


def all_formats(order: int) -> list[str]:
    if order == 0:
        return [""]
    out = []
    for modes in itertools.product("ds", repeat=order):
        for perm in itertools.permutations(range(order)):
            if perm == tuple(range(order)):
                out.append("".join(modes))
            else:
                out.append("".join(f"{m}{p}" for m, p in zip(modes, perm)))
    return out


def natural_formats(order: int) -> list[str]:
    if order == 0:
        return [""]
    return ["".join(m) for m in itertools.product("ds", repeat=order)]


def product_requests(assignment: str, fmt_source=all_formats):
    orders = tensor_orders(assignment)
    names = list(orders)
    pools = [fmt_source(orders[n]) for n in names]
    for combo in itertools.product(*pools):
        yield Request.make(assignment, dict(zip(names, combo)))


def count_product(assignment: str) -> int:
    n = 1
    for o in tensor_orders(assignment).values():
        n *= len(all_formats(o))
    return n


def sample_requests(assignment: str, k: int, rng: random.Random, must_sparse_out=False):
    """k format assignments drawn without replacement from the full product (deterministic)."""
    total = count_product(assignment)
    orders = tensor_orders(assignment)
    names = list(orders)
    pools = [all_formats(orders[n]) for n in names]
    if total <= k:
        idxs = list(range(total))
    else:
        idxs = sorted(rng.sample(range(total), k))
    out = []
    for idx in idxs:
        combo = []
        x = idx
        for pool in reversed(pools):
            combo.append(pool[x % len(pool)])
            x //= len(pool)
        combo.reverse()
        out.append(Request.make(assignment, dict(zip(names, combo))))
    return out


# A fixed list: every anchored mechanism is exercised at least once (merge cases, sub-node lattice
# shapes, bucket output, append output with dense-below-sparse and sparse-below-dense, written
# gating, pos/vals allocation with and without dense trailing dimensions).
QUICK_FIXED = [
    ("a(i) = b(i)", {"a": "s", "b": "s"}),
    ("a(i) = b(i)", {"a": "d", "b": "s"}),
    ("a(i) = b(i)", {"a": "s", "b": "d"}),
    ("a(i) = b(i) + c(i)", {"a": "s", "b": "s", "c": "s"}),
    ("a(i) = b(i) + c(i)", {"a": "d", "b": "s", "c": "s"}),
    ("a(i) = b(i) + c(i)", {"a": "s", "b": "s", "c": "d"}),
    ("a(i) = b(i) - c(i)", {"a": "s", "b": "d", "c": "s"}),
    ("a(i) = b(i) * c(i)", {"a": "s", "b": "s", "c": "s"}),
    ("a(i) = b(i) * c(i)", {"a": "s", "b": "s", "c": "d"}),
    ("a(i) = b(i) * c(i)", {"a": "d", "b": "s", "c": "s"}),
    ("a(i) = b(i) * c(i) + d(i)", {"a": "s", "b": "s", "c": "s", "d": "s"}),
    ("a(i) = (b(i) + c(i)) * d(i)", {"a": "d", "b": "s", "c": "d", "d": "s"}),
    ("a(i) = (b(i) + c(i)) * d(i)", {"a": "s", "b": "s", "c": "s", "d": "s"}),
    ("a(i) = b(i) - c(i) * d(i)", {"a": "s", "b": "s", "c": "d", "d": "s"}),
    ("a(i) = b(i) + c(i) + d(i)", {"a": "s", "b": "s", "c": "s", "d": "s"}),
    ("a(i) = b(i) * c()", {"a": "s", "b": "s", "c": ""}),
    ("a() = b(i) * c(i)", {"a": "", "b": "s", "c": "s"}),
    ("a() = b(i) * c(i)", {"a": "", "b": "s", "c": "d"}),
    ("a(i) = 2 * b(i) + 1.5", {"a": "d", "b": "s"}),
    ("a(i) = b(i) + 1", {"a": "s", "b": "s"}),
    ("a(i) = b(i) * b(i)", {"a": "s", "b": "s"}),
    ("A(i,j) = B(i,j)", {"A": "ss", "B": "ds"}),
    ("A(i,j) = B(i,j)", {"A": "ds", "B": "ss"}),
    ("A(i,j) = B(i,j)", {"A": "sd", "B": "ss"}),
    ("A(i,j) = B(j,i)", {"A": "ds", "B": "d1s0"}),
    ("A(i,j) = B(j,i)", {"A": "s1s0", "B": "ss"}),
    ("A(i,j) = B(i,j) + C(i,j)", {"A": "ds", "B": "ds", "C": "ds"}),
    ("A(i,j) = B(i,j) + C(i,j)", {"A": "ss", "B": "ss", "C": "ds"}),
    ("A(i,j) = B(i,j) + C(j,i)", {"A": "ds", "B": "ss", "C": "d1s0"}),
    ("A(i,j) = B(i,j) * C(i,j)", {"A": "ss", "B": "ss", "C": "ss"}),
    ("A(i,j) = B(i,j) * C(i,j)", {"A": "sd", "B": "ss", "C": "dd"}),
    ("A(i,j) = B(i,j) + B(j,i)", {"A": "dd", "B": "ds"}),
    ("A(i,j) = b(i) * c(j)", {"A": "ss", "b": "s", "c": "s"}),
    ("A(i,j) = B(i,j) + c(i)", {"A": "ds", "B": "ds", "c": "s"}),
    ("A(i,j) = B(i,j) * c(j)", {"A": "sd", "B": "dd", "c": "s"}),
    ("A(i,j) = B(i,j) * c(j)", {"A": "ss", "B": "ss", "c": "s"}),
    ("y(i) = A(i,j) * x(j)", {"y": "d", "A": "ds", "x": "d"}),
    ("y(i) = A(i,j) * x(j)", {"y": "s", "A": "ss", "x": "s"}),
    ("y(i) = A(i,j) * x(j)", {"y": "s", "A": "ds", "x": "s"}),
    ("y(j) = A(i,j) * x(i)", {"y": "d", "A": "ds", "x": "s"}),
    ("y(i) = A(i,j) * x(j) + d(i)", {"y": "s", "A": "ss", "x": "d", "d": "s"}),
    ("y(i) = A(i,j) * x(j) + 1", {"y": "d", "A": "ds", "x": "d"}),
    ("y(i) = A(i,j)", {"y": "s", "A": "ss"}),
    ("y(j) = A(i,j)", {"y": "d", "A": "ss"}),
    ("o() = A(i,j) * B(i,j)", {"o": "", "A": "ss", "B": "ds"}),
    ("A(i,k) = B(i,j) * C(j,k)", {"A": "dd", "B": "ds", "C": "ds"}),
    ("A(i,k) = B(i,j) * C(j,k)", {"A": "ds", "B": "ds", "C": "ds"}),
    ("A(i,k) = B(i,j) * C(j,k)", {"A": "sd", "B": "ss", "C": "dd"}),
    ("A(i,k) = B(i,j) * C(k,j)", {"A": "ss", "B": "ss", "C": "ss"}),
    ("o() = X() + Y(k) + Z(k)", {"o": "", "X": "", "Y": "d", "Z": "s"}),
    ("o() = Y(k) + Z(k) + X()", {"o": "", "X": "", "Y": "s", "Z": "s"}),
    ("a(i) = X(i) + Y(i,k) - Z(k,i)", {"a": "d", "X": "s", "Y": "ds", "Z": "d1s0"}),
    ("a(i) = b(i) * c(k) + d(i)", {"a": "s", "b": "s", "c": "s", "d": "s"}),
    ("A(i,j,k) = B(i,j,k)", {"A": "sss", "B": "dss"}),
    ("A(i,j,k) = B(j,k,i)", {"A": "dss", "B": "s2d0s1"}),
    ("A(i,j,k) = B(k,i,j)", {"A": "s1s2s0", "B": "sss"}),
    ("A(i,j,k) = B(i,j,k) + C(i,j,k)", {"A": "dds", "B": "dds", "C": "dss"}),
    ("A(i,j) = B(i,j,k) * c(k)", {"A": "ds", "B": "dss", "c": "s"}),
    ("A(i,j) = B(i,j,k) * c(k)", {"A": "ss", "B": "sss", "c": "d"}),
    ("a(i) = B(i,j,k)", {"a": "s", "B": "sss"}),
    ("A(i,j,k) = B(i,j,k)", {"A": "sds", "B": "sss"}),
    ("A(i,j,k) = B(i,j,k)", {"A": "ssd", "B": "dss"}),
    # names and operand order must not matter: reversed alphabetical tensor/index names, permuted operands
    ("z(k) = y(k) * x(k) + w(k)", {"z": "s", "y": "s", "x": "s", "w": "s"}),
    ("Q(b,a) = P(a,b) + R(b,a)", {"Q": "ds", "P": "d1s0", "R": "ss"}),
    ("a(i) = d(i) + c(i) * b(i)", {"a": "s", "d": "s", "c": "s", "b": "d"}),
    ("a(i) = (c(i) + b(i)) + d(i)", {"a": "s", "c": "s", "b": "s", "d": "d"}),
    ("t9(i1) = t1(i1,i0) * t0(i0)", {"t9": "s", "t1": "ss", "t0": "s"}),
    ("o() = Z(k) + X() + Y(k)", {"o": "", "Z": "s", "X": "", "Y": "d"}),
    # sums/differences whose terms have different contracted indexes, every association
    ("o() = X() - Y(k) - Z(k)", {"o": "", "X": "", "Y": "s", "Z": "d"}),
    ("o() = X() - Y(k) + Z(k)", {"o": "", "X": "", "Y": "d", "Z": "s"}),
    ("a(i) = b(i) - C(i,k) - D(i,k)", {"a": "d", "b": "s", "C": "ds", "D": "ds"}),
    ("a(i) = (b(i) - C(i,k)) * e(i) + D(i,k)", {"a": "d", "b": "d", "C": "ds", "e": "s", "D": "ds"}),
    ("o() = Y(k) - (X() - Z(k))", {"o": "", "X": "", "Y": "s", "Z": "s"}),
    # literal factors / subtraction next to sparse products and sparse outputs (exhaustion of scaled operands)
    ("a(i) = 2 * b(i) * c(i)", {"a": "s", "b": "s", "c": "s"}),
    ("A(i,j) = 2 * B(i,j) * C(i,j)", {"A": "ss", "B": "ss", "C": "ss"}),
    ("A(i,j) = 2 * B(i,j) * C(i,j)", {"A": "sd", "B": "ss", "C": "ds"}),
    ("A(i,j) = B(i,j) * C(i,j) - D(i,j)", {"A": "sd", "B": "ss", "C": "ds", "D": "ds"}),
    ("a(i) = b(i) * c(i) - d(i)", {"a": "s", "b": "s", "c": "s", "d": "s"}),
    ("a(i) = b(i) - c(i)", {"a": "s", "b": "s", "c": "s"}),
    ("a(i) = 2 * b(i)", {"a": "s", "b": "s"}),
    ("A(i,j) = c(j) * B(i,j)", {"A": "ss", "B": "ss", "c": "s"}),
    # three and four sparse operands co-iterated in one sparse loop
    ("a(i) = b(i) + c(i) + d(i) + e(i)", {"a": "s", "b": "s", "c": "s", "d": "s", "e": "s"}),
    ("A(i,j) = B(i,j) + C(i,j) + D(i,j)", {"A": "ds", "B": "ds", "C": "ds", "D": "ds"}),
    # dense contraction above / next to a sparse one, compressed output
    ("a(i) = B(i,j,k) * C(j,k)", {"a": "s", "B": "sds", "C": "ds"}),
    ("a(i) = B(i,j) * C(j,k) * d(k)", {"a": "s", "B": "sd", "C": "ds", "d": "s"}),
]


def format_sweep_requests() -> list[Request]:
    """Every output format of order 2 (all 8 modes x orderings) fed by a sparse and by a dense
    operand, and every 3-cycle / transposition ordering of order 3 as output (dense and mixed
    modes): the output side of the generator sees each level pattern and each non-self-inverse
    ordering at least once.  Copy and element-wise kernels only (cheap)."""
    out = []
    for f in all_formats(2):
        out.append(Request.make("A(i,j) = B(i,j)", {"A": f, "B": "ss"}))
        out.append(Request.make("A(i,j) = B(i,j)", {"A": f, "B": "dd"}))
        out.append(Request.make("A(i,j) = B(i,j) + C(j,i)", {"A": f, "B": "ds", "C": "ds"}))
    for perm in ("120", "201", "021", "102", "210"):
        for modes in ("ddd", "dds", "dsd", "sdd", "dss", "sds", "ssd", "sss"):
            f = "".join(m + p for m, p in zip(modes, perm))
            # the operand is stored in the same ordering (so that a kernel exists) and once in natural order
            out.append(Request.make("A(i,j,k) = B(i,j,k)", {"A": f, "B": "".join("s" + p for p in perm)}))
            if modes in ("ddd", "dds", "sdd"):
                out.append(Request.make("A(i,j,k) = B(i,j,k)", {"A": f, "B": "sss"}))
    for perm in ("120", "201"):
        f = "".join(m + p for m, p in zip("ddd", perm))
        out.append(Request.make("A(i,j,k) = D(i,j,l) * C(l,k)", {"A": f, "D": "dss", "C": "dd"}))
    return out


def _expr_trees(leaves):
    """All binary trees over the ordered leaves with operators + - * (text, fully parenthesised where needed)."""
    if len(leaves) == 1:
        return [leaves[0]]
    out = []
    for k in range(1, len(leaves)):
        for left in _expr_trees(leaves[:k]):
            for right in _expr_trees(leaves[k:]):
                for op in "+-*":
                    l = f"({left})" if (" + " in left or " - " in left) and op == "*" else left
                    r = f"({right})" if (" + " in right or " - " in right) and op in "*-" else right
                    if op == "+" and (" + " in right or " - " in right):
                        r = f"({right})"
                    out.append(f"{l} {op} {r}")
    return out


def expression_sweep_requests(four_leaves: bool = True) -> list[Request]:
    """Systematic element-wise expression sweep: every expression tree over <= 3 sparse vector operands
    (and the 135 trees over 4) with operators + - *, plus variants in which one leaf is the literal 2 or
    a contraction M(i,j) * x(j), and smaller sets with the literals 0, 1, 1.5 or an order-0 tensor s() as a leaf;
    all operands and the output compressed.  One-dimensional kernels are
    cheap, so the *expression* axis (merge lattice, exhaustion, sums next to contractions) is covered
    systematically instead of by hand-picked shapes."""
    names = ["b(i)", "c(i)", "d(i)", "e(i)"]
    out = []
    seen = set()

    def add(expr, extra_formats=None):
        text = f"a(i) = {expr}"
        fmts = {"a": "s"}
        for n in "bcde":
            if f"{n}(i)" in expr:
                fmts[n] = "s"
        if "s()" in expr:
            fmts["s"] = ""
        if extra_formats:
            fmts.update(extra_formats)
        r = Request.make(text, fmts)
        if r.key() not in seen:
            seen.add(r.key())
            out.append(r)

    for k in (2, 3):
        base = names[:k]
        for e in _expr_trees(base):
            add(e)
        for pos in range(k):
            lv = list(base)
            lv[pos] = "2"
            for e in _expr_trees(lv):
                add(e)
            lv = list(base)
            lv[pos] = "M(i,j) * x(j)"
            for n_e, e in enumerate(_expr_trees(lv)):
                add(e, {"M": "ss" if n_e % 2 else "ds", "x": "s"})
    # identity / absorbing literals (0 and 1 are what exhaust_tensor and the peephole rules key on), a float
    # literal and an order-0 tensor as a leaf
    for pos in range(2):
        for leaf in ("0", "1", "1.5", "s()"):
            lv = list(names[:2])
            lv[pos] = leaf
            for e in _expr_trees(lv):
                add(e)
    for pos in range(3):
        for leaf in ("0", "s()"):
            lv = list(names[:3])
            lv[pos] = leaf
            for e in _expr_trees(lv)[pos::3]:
                add(e)
    if four_leaves:
        for e in _expr_trees(names):
            add(e)
    return out


def core_requests() -> list[Request]:
    """The fixed list only (used by the multi-kernel checks, which run 2-4 kernels per path)."""
    return [Request.make(a, f) for a, f in QUICK_FIXED]


def sweep_keys() -> set:
    core = {r.key() for r in core_requests()}
    return {r.key() for r in format_sweep_requests() + expression_sweep_requests()} - core


def quick_requests(expressions: bool = True) -> list[Request]:
    seen = set()
    out = []
    for r in ([Request.make(a, f) for a, f in QUICK_FIXED] + format_sweep_requests()
              + (expression_sweep_requests() if expressions else [])):
        if r.key() not in seen:
            seen.add(r.key())
            out.append(r)
    return out


def rotating_requests(seed: int, k: int = 16) -> list[Request]:
    """k requests drawn from the thorough generator's space (shape x format product) by VERIF_SEED:
    the quick tier sees a different slice of the request axis on every run."""
    rng = random.Random(4242 + seed)
    fixed = {r.key() for r in quick_requests()}
    out = []
    shapes = SHAPES_CORE + SHAPES_ORDER3[:6]
    tries = 0
    while len(out) < k and tries < 400:
        tries += 1
        shape = rng.choice(shapes)
        r = sample_requests(shape, 1, rng)[0]
        if r.key() in fixed or any(r.key() == o.key() for o in out):
            continue
        out.append(r)
    return out


def thorough_requests(seed: int, per_shape: int = 40, per_shape3: int = 16) -> list[Request]:
    rng = random.Random(1000 + seed)
    out = list(quick_requests())
    seen = {r.key() for r in out}
    for shape in SHAPES_CORE:
        for r in sample_requests(shape, per_shape, rng):
            if r.key() not in seen:
                seen.add(r.key())
                out.append(r)
    for shape in SHAPES_ORDER3:
        for r in sample_requests(shape, per_shape3, rng):
            if r.key() not in seen:
                seen.add(r.key())
                out.append(r)
    return out
