"""./vt check <property> --tier quick|thorough   |   ./vt replay <property> <file>"""

from __future__ import annotations

import argparse
import os
import sys


def main(argv=None):
    import faulthandler
    import signal

    faulthandler.register(signal.SIGUSR1, all_threads=False)
    ap = argparse.ArgumentParser(prog="vt")
    sub = ap.add_subparsers(dest="cmd", required=True)
    c = sub.add_parser("check")
    c.add_argument("property")
    c.add_argument("--tier", default=os.environ.get("VERIF_TIER", "quick"), choices=["quick", "thorough"])
    r = sub.add_parser("replay")
    r.add_argument("property")
    r.add_argument("path")
    sub.add_parser("setup")
    args = ap.parse_args(argv)
    if args.cmd == "setup":
        print("vt: environment ready")
        return 0
    if args.cmd == "check":
        pid = args.property.upper()
        from .checks import registry

        if pid not in registry.CHECKS:
            print(f"no check for {pid}", file=sys.stderr)
            return 2
        return registry.CHECKS[pid](args.tier)
    if args.cmd == "replay":
        from .checks import registry

        return registry.replay(args.property.upper(), args.path)
    return 2


if __name__ == "__main__":
    try:
        code = main()
    except SystemExit:
        raise
    except BaseException as e:  # noqa: BLE001
        import traceback

        traceback.print_exc()
        print(f"HARNESS-ERROR {type(e).__name__}: {e}")
        code = 2
    sys.exit(code)
