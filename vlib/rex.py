"""E5 — Python regular expressions (as used by the real parsers) to z3 regular expressions."""

from __future__ import annotations

import re

import z3

try:
    import re._parser as sre_parse  # Python >= 3.11
    import re._constants as sre_c
except ImportError:  # pragma: no cover
    import sre_constants as sre_c
    import sre_parse

from .kse import HarnessError

S = z3.StringSort()


def lit(ch: str):
    return z3.Re(z3.StringVal(ch))


def char_range(a: str, b: str):
    return z3.Range(z3.StringVal(a), z3.StringVal(b))


DIGIT = char_range("0", "9")


def _category(cat):
    if cat == sre_c.CATEGORY_DIGIT:
        return DIGIT
    if cat == sre_c.CATEGORY_WORD:
        return z3.Union(char_range("a", "z"), char_range("A", "Z"), DIGIT, lit("_"))
    if cat == sre_c.CATEGORY_SPACE:
        return z3.Union(lit(" "), lit("\t"), lit("\n"), lit("\r"))
    raise HarnessError(f"unsupported regex category {cat}")


def _set(items):
    parts = []
    negate = False
    for op, av in items:
        if op == sre_c.NEGATE:
            negate = True
        elif op == sre_c.LITERAL:
            parts.append(lit(chr(av)))
        elif op == sre_c.RANGE:
            parts.append(char_range(chr(av[0]), chr(av[1])))
        elif op == sre_c.CATEGORY:
            parts.append(_category(av))
        else:
            raise HarnessError(f"unsupported regex set item {op}")
    if negate:
        raise HarnessError("negated character classes are not supported")
    return parts[0] if len(parts) == 1 else z3.Union(*parts)


def _seq(items):
    parts = [_node(op, av) for op, av in items]
    if not parts:
        return z3.Re(z3.StringVal(""))
    if len(parts) == 1:
        return parts[0]
    return z3.Concat(*parts)


def _node(op, av):
    if op == sre_c.LITERAL:
        return lit(chr(av))
    if op == sre_c.IN:
        return _set(av)
    if op == sre_c.CATEGORY:
        return _category(av)
    if op == sre_c.SUBPATTERN:
        return _seq(av[3])
    if op == sre_c.BRANCH:
        alts = [_seq(a) for a in av[1]]
        return alts[0] if len(alts) == 1 else z3.Union(*alts)
    if op in (sre_c.MAX_REPEAT, sre_c.MIN_REPEAT):
        lo, hi, sub = av
        r = _seq(sub)
        if hi == sre_c.MAXREPEAT:
            if lo == 0:
                return z3.Star(r)
            if lo == 1:
                return z3.Plus(r)
            return z3.Concat(*([r] * lo + [z3.Star(r)]))
        if lo == 0 and hi == 1:
            return z3.Option(r)
        return z3.Loop(r, lo, hi)
    raise HarnessError(f"unsupported regex construct {op}")


def to_z3(pattern: str):
    """z3 regular expression for the language *fully matched* by ``pattern``."""
    return _seq(list(sre_parse.parse(pattern)))


def union(*rs):
    return rs[0] if len(rs) == 1 else z3.Union(*rs)


def find_not_included(sub, sup, exclude=(), timeout_ms=20000):
    """A string in L(sub) \\ L(sup) (not in ``exclude``), or None; raises on unknown."""
    s = z3.String("s")
    sv = z3.Solver()
    sv.set("timeout", timeout_ms)
    sv.add(z3.InRe(s, sub))
    sv.add(z3.Not(z3.InRe(s, sup)))
    for e in exclude:
        sv.add(s != z3.StringVal(e))
    r = sv.check()
    if r == z3.unsat:
        return None
    if r == z3.unknown:
        raise HarnessError("string solver answered unknown")
    return sv.model()[s].as_string()


def python_matches(pattern: str, text: str) -> bool:
    return re.fullmatch(pattern, text) is not None
