"""Hybrid concrete/symbolic value helpers.

Integers are Python ``int`` when concrete and z3 ``Int`` terms otherwise; booleans are Python
``bool`` or z3 ``Bool`` terms.  Doubles are handled by a *float algebra* (see ``PW`` and ``UF``).
"""

from __future__ import annotations

from fractions import Fraction

import z3

INT_MIN = -(2**31)
INT_MAX = 2**31 - 1

IntSort = z3.IntSort()
RealSort = z3.RealSort()
BoolSort = z3.BoolSort()


def is_int(x) -> bool:
    return (isinstance(x, int) and not isinstance(x, bool)) or (
        isinstance(x, z3.ArithRef) and x.is_int()
    )


def is_bool(x) -> bool:
    return isinstance(x, (bool, z3.BoolRef))


def conc(x) -> bool:
    return isinstance(x, (int, bool, Fraction))


def zi(x):
    return z3.IntVal(x) if isinstance(x, int) else x


def zb(x):
    return z3.BoolVal(x) if isinstance(x, bool) else x


def lift_int(x):
    """Turn a z3 numeral back into a Python int when possible."""
    if isinstance(x, int):
        return x
    if z3.is_int_value(x):
        return x.as_long()
    return x


def simp_int(x):
    if isinstance(x, int):
        return x
    x = z3.simplify(x)
    if z3.is_int_value(x):
        return x.as_long()
    return x


def simp_bool(x):
    if isinstance(x, bool):
        return x
    x = z3.simplify(x)
    if z3.is_true(x):
        return True
    if z3.is_false(x):
        return False
    return x


# ---------------------------------------------------------------- integer arithmetic


def iadd(a, b):
    if isinstance(a, int) and isinstance(b, int):
        return a + b
    if isinstance(b, int) and b == 0:
        return a
    if isinstance(a, int) and a == 0:
        return b
    return zi(a) + zi(b)


def isub(a, b):
    if isinstance(a, int) and isinstance(b, int):
        return a - b
    if isinstance(b, int) and b == 0:
        return a
    return zi(a) - zi(b)


def imul(a, b):
    if isinstance(a, int) and isinstance(b, int):
        return a * b
    if isinstance(a, int):
        if a == 0:
            return 0
        if a == 1:
            return b
    if isinstance(b, int):
        if b == 0:
            return 0
        if b == 1:
            return a
    return zi(a) * zi(b)


def icmp(op: str, a, b):
    if isinstance(a, int) and isinstance(b, int):
        return {
            "==": a == b,
            "!=": a != b,
            "<": a < b,
            "<=": a <= b,
            ">": a > b,
            ">=": a >= b,
        }[op]
    a, b = zi(a), zi(b)
    if op == "==":
        return a == b
    if op == "!=":
        return a != b
    if op == "<":
        return a < b
    if op == "<=":
        return a <= b
    if op == ">":
        return a > b
    return a >= b


def ite(c, a, b):
    if isinstance(c, bool):
        return a if c else b
    if isinstance(a, int) and isinstance(b, int) and a == b:
        return a
    return z3.If(c, zi(a), zi(b))


def in_int32(x):
    if isinstance(x, int):
        return INT_MIN <= x <= INT_MAX
    return z3.And(x >= INT_MIN, x <= INT_MAX)


# ---------------------------------------------------------------- booleans


def band(*xs):
    out = []
    for x in xs:
        if isinstance(x, bool):
            if not x:
                return False
            continue
        out.append(x)
    if not out:
        return True
    if len(out) == 1:
        return out[0]
    return z3.And(*out)


def bor(*xs):
    out = []
    for x in xs:
        if isinstance(x, bool):
            if x:
                return True
            continue
        out.append(x)
    if not out:
        return False
    if len(out) == 1:
        return out[0]
    return z3.Or(*out)


def bnot(x):
    if isinstance(x, bool):
        return not x
    return z3.Not(x)


def bimplies(a, b):
    return bor(bnot(a), b)


def beq(a, b):
    if isinstance(a, bool) and isinstance(b, bool):
        return a == b
    if isinstance(a, bool):
        return b if a else bnot(b)
    if isinstance(b, bool):
        return a if b else bnot(a)
    return a == b


# ---------------------------------------------------------------- float algebras


def frac_of_float(x: float) -> Fraction:
    return Fraction(x)


def rv(c: Fraction):
    return z3.RealVal(str(c)) if c.denominator != 1 else z3.RealVal(c.numerator)


class PW:
    """Piecewise rational:  sum_k [guard_k] * const_k  +  rest  (rest: z3 Real term or None).

    This is the "guarded constants" value representation justified by the grid lemma: input
    cells are indicator sums, so every float value inside a kernel is a sum of products of
    guards and rational constants; all queries about it stay linear.
    """

    __slots__ = ("terms", "rest")

    def __init__(self, terms=(), rest=None):
        self.terms = list(terms)
        self.rest = rest

    @staticmethod
    def const(c) -> "PW":
        c = Fraction(c)
        return PW([(True, c)] if c != 0 else [])

    def is_const(self):
        return self.rest is None and all(g is True for g, _ in self.terms)

    def const_value(self) -> Fraction:
        return sum((c for _, c in self.terms), Fraction(0))

    def normalized(self) -> "PW":
        k = Fraction(0)
        out = []
        for g, c in self.terms:
            if g is True:
                k += c
            elif g is False or c == 0:
                continue
            else:
                out.append((g, c))
        if k != 0:
            out.insert(0, (True, k))
        return PW(out, self.rest)

    def add(self, o: "PW") -> "PW":
        rest = self.rest
        if o.rest is not None:
            rest = o.rest if rest is None else rest + o.rest
        return PW(self.terms + o.terms, rest).normalized()

    def neg(self) -> "PW":
        return PW([(g, -c) for g, c in self.terms], None if self.rest is None else -self.rest)

    def sub(self, o: "PW") -> "PW":
        return self.add(o.neg())

    def scale(self, k: Fraction) -> "PW":
        if k == 0:
            return PW()
        return PW(
            [(g, c * k) for g, c in self.terms],
            None if self.rest is None else rv(k) * self.rest,
        )

    def mul(self, o: "PW") -> "PW":
        if self.is_const():
            return o.scale(self.const_value())
        if o.is_const():
            return self.scale(o.const_value())
        if self.rest is None and o.rest is None:
            out = []
            for g1, c1 in self.terms:
                for g2, c2 in o.terms:
                    out.append((band(g1, g2), c1 * c2))
            return PW(out).normalized()
        # non-linear fallback: opaque * non-constant
        PW.nonlinear_products += 1
        return PW([], self.z3() * o.z3())

    nonlinear_products = 0

    def guard(self, g) -> "PW":
        """[g] * self"""
        if g is True:
            return self
        if g is False:
            return PW()
        rest = None if self.rest is None else z3.If(g, self.rest, z3.RealVal(0))
        return PW([(band(g, gg), c) for gg, c in self.terms], rest).normalized()

    def z3(self):
        parts = []
        k = Fraction(0)
        for g, c in self.terms:
            if g is True:
                k += c
            else:
                parts.append(z3.If(g, rv(c), z3.RealVal(0)))
        if self.rest is not None:
            parts.append(self.rest)
        if k != 0 or not parts:
            parts.insert(0, rv(k))
        if len(parts) == 1:
            return parts[0]
        return z3.Sum(parts)

    def __repr__(self):
        return f"PW({self.terms!r}, rest={self.rest!r})"


class PWAlgebra:
    """Float algebra over guarded rational constants (Reals, exact)."""

    name = "pw"

    def const(self, c):
        return PW.const(c)

    def from_int(self, i):
        if isinstance(i, int):
            return PW.const(i)
        return PW([], z3.ToReal(i))

    def add(self, a, b):
        return a.add(b)

    def sub(self, a, b):
        return a.sub(b)

    def mul(self, a, b):
        return a.mul(b)

    def to_cell(self, v):
        return v.z3()

    def from_cell(self, t):
        t = z3.simplify(t)
        if z3.is_rational_value(t):
            return PW.const(Fraction(t.numerator_as_long(), t.denominator_as_long()))
        return PW([], t)

    def select(self, cond, a, b):
        return a.guard(cond).add(b.guard(bnot(cond)))

    def eq(self, a, b):
        d = a.sub(b)
        if d.is_const():
            return d.const_value() == 0
        return d.z3() == 0


class UF:
    """A double represented as a z3 Real-sorted term built from uninterpreted fadd/fsub/fmul."""

    __slots__ = ("t",)

    def __init__(self, t):
        self.t = t

    def __repr__(self):
        return f"UF({self.t})"


_fadd = z3.Function("fadd", RealSort, RealSort, RealSort)
_fsub = z3.Function("fsub", RealSort, RealSort, RealSort)
_fmul = z3.Function("fmul", RealSort, RealSort, RealSort)
_sitofp = z3.Function("sitofp", IntSort, RealSort)
_fneg = z3.Function("fneg", RealSort, RealSort)


def _is_const(t, value):
    return z3.is_rational_value(t) and t.numerator_as_long() == value * t.denominator_as_long()


def uf_neg(t):
    """IEEE negation is exact: -(-x) = x and -c is a constant."""
    if z3.is_rational_value(t):
        return z3.simplify(-t)
    if z3.is_app(t) and t.decl().eq(_fneg):
        return t.arg(0)
    return _fneg(t)


def uf_add(a, b):
    a, b = sorted((a, b), key=lambda t: t.get_id())
    return _fadd(a, b)


def uf_sub(a, b):
    """x - y is by definition x + (-y) in IEEE 754: same bits (so C's `x - y` for the IR's x + -1 * y is no difference)."""
    return uf_add(a, uf_neg(b))


def uf_mul(a, b):
    """-1 * y = -y and 1 * y = y exactly (finite y, signed zeros included)."""
    for p, q in ((a, b), (b, a)):
        if _is_const(p, -1):
            return uf_neg(q)
        if _is_const(p, 1):
            return q
    a, b = sorted((a, b), key=lambda t: t.get_id())
    return _fmul(a, b)


class UFAlgebra:
    """Float algebra that preserves the operation DAG: two values are equal only if they were
    computed by the same IEEE operations on the same operands (commutativity of fadd/fmul is
    built in by ordering arguments).  Used where *bit-identical* results are demanded."""

    name = "uf"

    def const(self, c):
        return UF(rv(Fraction(c)))

    def from_int(self, i):
        if isinstance(i, int):
            return UF(rv(Fraction(i)))
        return UF(_sitofp(i))

    @staticmethod
    def _order(a, b):
        ka, kb = a.t.get_id(), b.t.get_id()
        return (a, b) if ka <= kb else (b, a)

    def add(self, a, b):
        return UF(uf_add(a.t, b.t))

    def sub(self, a, b):
        return UF(uf_sub(a.t, b.t))

    def mul(self, a, b):
        return UF(uf_mul(a.t, b.t))

    def to_cell(self, v):
        return v.t

    def from_cell(self, t):
        return UF(z3.simplify(t))

    def select(self, cond, a, b):
        if isinstance(cond, bool):
            return a if cond else b
        return UF(z3.If(cond, a.t, b.t))

    def eq(self, a, b):
        if a.t.eq(b.t):
            return True
        return a.t == b.t
