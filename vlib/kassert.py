"""End-of-path assertions over the final heap: C01 value, C02 canonical form, C03 support,
C05 hand-back clauses."""

from __future__ import annotations

import z3
from tensora.format import Mode

from . import spec, sym
from .kse import HarnessError, Machine, Violation
from .sym import band, bimplies, bnot, bor, icmp, simp_bool, simp_int, zi
from .tensors import TensorView


def discharge(m: Machine, conds, kind):
    """One query for a list of (cond, label): all must hold on every input of this path."""
    todo = []
    for c, w in conds:
        c = simp_bool(c)
        if c is True:
            continue
        if c is False:
            m.check()
            raise Violation(kind, w, m.solver.model() if not m.concrete else None)
        todo.append((c, w))
    if not todo:
        return 0
    if m.concrete:
        raise HarnessError("symbolic condition in concrete mode")
    r = m.check(z3.Not(z3.And(*[c for c, _ in todo])))
    if r == z3.unsat:
        return len(todo)
    model = m.solver.model()
    for c, w in todo:
        if not z3.is_true(model.eval(c, model_completion=True)):
            raise Violation(kind, w, model)
    raise HarnessError("sat without a falsified condition")


def output_shape(m: Machine, out: str, exact: bool, conds: list):
    """Walk the output levels; returns the per-level position counts (concrete) and appends the
    C02 (exact=True) or C05 (exact=False) clauses to ``conds``."""
    ts = m.tensors[out]
    view = TensorView(m, out)
    n_prev = 1
    counts = []
    for l, mode in enumerate(ts.modes):
        d = ts.ordering[l]
        dim = simp_int(view.dim(d))
        if mode == Mode.dense:
            if not isinstance(dim, int):
                raise HarnessError("dense output level with symbolic dimension")
            n_prev = n_prev * dim
            counts.append(n_prev)
            continue
        pos_p, crd_p = ts.levels[l]
        for what, p in (("pos", pos_p), ("crd", crd_p)):
            if p.block == 0:
                raise Violation("structure", (f"{what} pointer of level {l} is NULL", out), _model(m))
            b = m.heap[p.block]
            if not b.alive:
                raise Violation("structure", (f"{what} of level {l} points to freed memory", out), _model(m))
            conds.append((icmp("==", simp_int(p.off), 0), (f"{what} of level {l} is an interior pointer", out)))
        pb = m.heap[pos_p.block]
        cb = m.heap[crd_p.block]
        if exact:
            conds.append((icmp("==", pb.length, n_prev + 1),
                          ("pos length is not parent positions + 1", out, l, _s(pb.length), n_prev + 1)))
        else:
            conds.append((icmp(">=", pb.length, n_prev + 1),
                          ("pos array shorter than the structure it describes", out, l)))
        cells = [m.read_cell(pb, k) for k in range(n_prev + 1)]
        for k in range(n_prev + 1):
            conds.append((simp_bool(pb.init.cond(k)), ("pos cell uninitialised", out, l, k)))
        n_here = m.value_is(cells[n_prev])
        if n_here is None:
            raise HarnessError("output level size is not path-concrete")
        if n_here < 0 or n_here > 10000:
            raise Violation("structure", ("pos[-1] out of range", out, l, n_here), _model(m))
        if exact:
            conds.append((icmp("==", cells[0], 0), ("pos[0] != 0", out, l)))
            for k in range(n_prev):
                conds.append((icmp("<=", cells[k], cells[k + 1]), ("pos decreases", out, l, k)))
            conds.append((icmp("==", cb.length, n_here),
                          ("crd length is not pos[-1]", out, l, _s(cb.length), n_here)))
        else:
            conds.append((icmp(">=", cb.length, n_here),
                          ("crd array shorter than the structure it describes", out, l)))
        crd = [m.read_cell(cb, q) for q in range(n_here)]
        for q in range(n_here):
            conds.append((simp_bool(cb.init.cond(q)), ("crd cell uninitialised", out, l, q)))
            if exact:
                conds.append((band(icmp(">=", crd[q], 0), icmp("<", crd[q], dim)),
                              ("crd outside the dimension", out, l, q)))
        if exact:
            for q in range(n_here - 1):
                boundary = bor(*[icmp("==", cells[k], q + 1) for k in range(1, n_prev + 1)])
                conds.append((bor(boundary, icmp("<", crd[q], crd[q + 1])),
                              ("crd not strictly increasing inside a segment", out, l, q)))
        n_prev = n_here
        counts.append(n_prev)
    vp = ts.vals
    if vp.block == 0:
        raise Violation("structure", ("vals pointer is NULL", out), _model(m))
    vb = m.heap[vp.block]
    if not vb.alive:
        raise Violation("structure", ("vals points to freed memory", out), _model(m))
    conds.append((icmp("==", simp_int(vp.off), 0), ("vals is an interior pointer", out)))
    conds.append((icmp(">=", vb.length, n_prev), ("vals shorter than the stored positions", out)))
    for q in range(n_prev):
        conds.append((simp_bool(vb.init.cond(q)), ("vals cell uninitialised", out, q)))
    return counts


def _s(x):
    return x if isinstance(x, int) else "<symbolic>"


def _model(m: Machine):
    if m.concrete:
        return None
    m.check()
    return m.solver.model()


def compressed_bounds(m: Machine, out: str, counts):
    ts = m.tensors[out]
    return [counts[l] if ts.modes[l] == Mode.compressed else None for l in range(ts.order)]


def target_coordinate(assignment, setup_dims: dict, prefix="c"):
    """A symbolic coordinate of the target space + its range constraint."""
    coord = {}
    rng = []
    for i in assignment.target.indexes:
        c = z3.Int(f"{prefix}_{i}")
        coord[i] = c
        rng.append(c >= 0)
        rng.append(c < zi(setup_dims[i]))
    return coord, rng


def out_value(m: Machine, out: str, assignment, counts, coord: dict):
    """Denotation of the final output at ``coord``: sum of the stored entries at that coordinate."""
    view = TensorView(m, out, compressed_bounds(m, out, counts))
    total = sym.PW()
    tix = assignment.target.indexes
    for e in view.entries():
        g = e.guard
        for d, i in enumerate(tix):
            g = band(g, icmp("==", e.coords[d], coord[i]))
        g = simp_bool(g)
        if g is False:
            continue
        total = total.add(e.value.guard(g))
    return total


def input_entries(m: Machine, infos: dict, cache: dict):
    def entries_of(name):
        if name not in cache:
            info = infos[name]
            bounds = [None if lv is None else lv.nmax for lv in info.levels]
            cache[name] = TensorView(m, name, bounds).entries()
        return cache[name]

    return entries_of


def check_value(m: Machine, out: str, assignment, counts, entries_of, index_dims: dict, cache=None):
    """C01: for every coordinate of the target space the stored result equals the assignment read
    as ordinary tensor algebra."""
    coord, rng = target_coordinate(assignment, index_dims)
    lhs = out_value(m, out, assignment, counts, coord)
    if cache is not None and "spec" in cache:
        rhs = cache["spec"]
    else:
        rhs = spec.spec_value(assignment, entries_of, coord)
        if cache is not None:
            cache["spec"] = rhs
    diff = lhs.sub(rhs)
    _maybe_crosscheck(m, rng, diff)
    if diff.is_const():
        if diff.const_value() == 0:
            return None
        r = m.check(*rng)
        if r == z3.unsat:
            return None
        model = m.solver.model()
    else:
        r = m.check(*rng, diff.z3() != 0)
        if r == z3.unsat:
            return None
        model = m.solver.model()
    at = {i: model.eval(c, model_completion=True).as_long() for i, c in coord.items()}
    raise Violation("value-mismatch", ("output differs from the assignment's meaning", at), model,
                    detail={"coordinate": at})


CROSS = {"n": 0, "queries": 0, "agree": 0, "inconclusive": 0, "disagree": []}


def _maybe_crosscheck(m: Machine, rng, diff):
    """Every k-th value query is also put to cvc5 (second solver); verdicts must agree."""
    import os
    import shutil
    import subprocess
    import tempfile

    every = int(os.environ.get("VERIF_CVC5_EVERY", "0") or 0)
    if not every or diff.is_const():
        return
    CROSS["n"] += 1
    if CROSS["n"] % every:
        return
    if shutil.which("cvc5") is None:
        return
    s2 = z3.Solver()
    s2.set("timeout", 30000)
    s2.add(m.solver.assertions())
    s2.add(*rng)
    s2.add(diff.z3() != 0)
    rz = str(s2.check())
    with tempfile.NamedTemporaryFile("w", suffix=".smt2", delete=False) as f:
        f.write("(set-logic ALL)\n" + s2.to_smt2())
        path = f.name
    try:
        out = subprocess.run(["cvc5", "--tlimit=30000", path], capture_output=True, text=True, timeout=90)
        rc = out.stdout.strip().splitlines()[0] if out.stdout.strip() else "error"
        if out.stderr.strip() or "(error" in out.stdout:
            rc = "error"
    except subprocess.TimeoutExpired:
        rc = "unknown"
    finally:
        os.unlink(path)
    CROSS["queries"] += 1
    if rc in ("unknown", "error") or rz == "unknown":
        CROSS["inconclusive"] += 1
    elif rc == rz:
        CROSS["agree"] += 1
    else:
        CROSS["disagree"].append(f"z3 {rz} vs cvc5 {rc}")


def check_support(m: Machine, out: str, assignment, counts, entries_of):
    """C03: every coordinate stored at a compressed output level has structural support."""
    ts = m.tensors[out]
    view = TensorView(m, out, compressed_bounds(m, out, counts))
    tix = assignment.target.indexes
    bad = []
    labels = []
    n = 0
    for l, mode in enumerate(ts.modes):
        if mode != Mode.compressed:
            continue
        dims_known = [ts.ordering[k] for k in range(l + 1)]
        for e in view.entries(upto_level=l):
            partial = {tix[d]: e.coords[d] for d in dims_known}
            sup = spec.support(assignment, entries_of, partial)
            n += 1
            c = simp_bool(band(e.guard, bnot(sup)))
            if c is False:
                continue
            bad.append(c)
            labels.append((l, e.level_pos[l], partial))
    if not bad:
        return n
    r = m.check(z3.Or(*[sym.zb(b) for b in bad]))
    if r == z3.unsat:
        return n
    model = m.solver.model()
    for c, (l, q, partial) in zip(bad, labels):
        if c is True or z3.is_true(model.eval(c, model_completion=True)):
            at = {i: (v if isinstance(v, int) else model.eval(v, model_completion=True).as_long())
                  for i, v in partial.items()}
            raise Violation("phantom-coordinate",
                            ("compressed output level stores a coordinate without support", l, q, at),
                            model, detail={"level": l, "position": q, "coordinate": at})
    raise HarnessError("sat without witness")
