"""A *request* = assignment text + format per tensor; turned into kernels by the real compiler."""

from __future__ import annotations

import contextlib
from dataclasses import dataclass, field

from returns.result import Failure, Success
from tensora.desugar import DiagonalAccessError, NoKernelFoundError
from tensora.expression import parse_assignment
from tensora.format import parse_format
from tensora.kernel_type import KernelType
from tensora.problem import make_problem


@dataclass(frozen=True)
class Request:
    assignment: str
    formats: tuple  # ((name, fmt text), ...)

    @staticmethod
    def make(assignment: str, formats: dict) -> "Request":
        return Request(assignment, tuple(formats.items()))

    def key(self) -> str:
        return self.assignment + " | " + ",".join(f"{k}:{v}" for k, v in self.formats)

    def asdict(self):
        return {"assignment": self.assignment, "formats": dict(self.formats)}


@dataclass
class Compiled:
    request: Request
    problem: object = None
    assignment: object = None  # sugar AST
    formats: dict = None  # name -> Format (problem order)
    target: str = ""
    module: object = None  # optimised module
    functions: dict = field(default_factory=dict)  # kind name -> FunctionDefinition
    refusal: str | None = None


@contextlib.contextmanager
def peephole_disabled():
    import tensora.generate._tensora as gt

    old = gt.peephole
    gt.peephole = lambda module: module
    try:
        yield
    finally:
        gt.peephole = old


def compile_request(req: Request, kinds=("evaluate",), optimise=True) -> Compiled:
    """Run the real front end and generator.  Documented refusals are recorded, not raised."""
    from tensora.generate import generate_module_tensora

    out = Compiled(req)
    parsed = parse_assignment(req.assignment)
    if not isinstance(parsed, Success):
        out.refusal = f"parse: {type(parsed.failure()).__name__}"
        return out
    assignment = parsed.unwrap()
    fmts = {}
    for name, text in req.formats:
        f = parse_format(text)
        if not isinstance(f, Success):
            out.refusal = f"format: {type(f.failure()).__name__}"
            return out
        fmts[name] = f.unwrap()
    prob = make_problem(assignment, fmts)
    if not isinstance(prob, Success):
        out.refusal = f"problem: {type(prob.failure()).__name__}"
        return out
    problem = prob.unwrap()
    out.problem = problem
    out.assignment = assignment
    out.formats = dict(problem.formats)
    out.target = assignment.target.name
    kts = [KernelType[k] for k in kinds]
    try:
        if optimise:
            res = generate_module_tensora(problem, kts)
        else:
            with peephole_disabled():
                res = generate_module_tensora(problem, kts)
    except NotImplementedError as e:
        out.refusal = "NotImplementedError"
        return out
    if isinstance(res, Failure):
        err = res.failure()
        if isinstance(err, (DiagonalAccessError, NoKernelFoundError)):
            out.refusal = type(err).__name__
            return out
        raise err
    out.module = res.unwrap()
    for k, fn in zip(kinds, out.module.definitions):
        out.functions[k] = fn
    return out


def has_broadcast_target(assignment) -> bool:
    rhs = set(assignment.expression.index_participants().keys())
    return any(i not in rhs for i in assignment.target.indexes)
