"""E3 — typed IR expression trees: enumeration, typing, and a pure (path-free) symbolic meaning.

meaning(e) = (type, value, safe, accesses)
  value     Python int/Fraction/bool or z3 term (Int / Real / Bool)
  safe      condition under which evaluating ``e`` is defined: every int32 operation in range and
            every array access in bounds, *guarded by short-circuit conditions*
  accesses  list of (guard, array name, index) performed
"""

from __future__ import annotations

import itertools
from fractions import Fraction

import z3
from tensora.ir import ast as ir

from . import sym
from .sym import band, bimplies, bnot, bor, icmp, iadd, imul, isub, ite, zb, zi

# -1 is outside the property's literal list but is the one other literal the generator emits
# (desugared subtraction: x - y becomes x + -1 * y), so rules keyed on it are in scope
INT_LEAVES = [ir.IntegerLiteral(0), ir.IntegerLiteral(1), ir.IntegerLiteral(2), ir.IntegerLiteral(-1),
              ir.Variable("x"), ir.Variable("y")]
FLOAT_LEAVES = [ir.FloatLiteral(0.0), ir.FloatLiteral(1.0), ir.FloatLiteral(1.5), ir.Variable("u"), ir.Variable("v")]
BOOL_LEAVES = [ir.BooleanLiteral(True), ir.BooleanLiteral(False), ir.Variable("p"), ir.Variable("q")]

VAR_TYPES = {"x": "int", "y": "int", "u": "float", "v": "float", "p": "bool", "q": "bool",
             "ia": "int*", "fa": "float*"}

ARITH = (ir.Add, ir.Subtract, ir.Multiply)
CMPS = (ir.Equal, ir.NotEqual, ir.GreaterThan, ir.LessThan, ir.GreaterThanOrEqual, ir.LessThanOrEqual)
CMP_OP = {ir.Equal: "==", ir.NotEqual: "!=", ir.GreaterThan: ">", ir.LessThan: "<",
          ir.GreaterThanOrEqual: ">=", ir.LessThanOrEqual: "<="}


def type_of(e, var_types=VAR_TYPES):
    """'int' | 'float' | 'bool' | 'int*' | 'float*' or None when no back end accepts the tree."""
    t = type(e)
    if t is ir.Variable:
        return var_types.get(e.name)
    if t is ir.IntegerLiteral:
        return "int"
    if t is ir.FloatLiteral:
        return "float"
    if t is ir.BooleanLiteral:
        return "bool"
    if t in ARITH:
        a, b = type_of(e.left, var_types), type_of(e.right, var_types)
        if a in ("int", "float") and b in ("int", "float"):
            return "float" if "float" in (a, b) else "int"
        if t is ir.Add and a in ("int*", "float*") and b == "int":
            return a
        return None
    if t in CMPS:
        a, b = type_of(e.left, var_types), type_of(e.right, var_types)
        if a == b == "int":
            return "bool"
        if a == b == "bool" and t in (ir.Equal, ir.NotEqual):
            return "bool"
        return None
    if t in (ir.And, ir.Or):
        a, b = type_of(e.left, var_types), type_of(e.right, var_types)
        return "bool" if a == b == "bool" else None
    if t in (ir.Min, ir.Max):
        a, b = type_of(e.left, var_types), type_of(e.right, var_types)
        return "int" if a == b == "int" else None
    if t is ir.BooleanToInteger:
        return "int" if type_of(e.expression, var_types) == "bool" else None
    if t is ir.ArrayIndex:
        a, b = type_of(e.target, var_types), type_of(e.index, var_types)
        if a == "int*" and b == "int":
            return "int"
        if a == "float*" and b == "int":
            return "float"
        return None
    return None


def leaves():
    return {"int": list(INT_LEAVES), "float": list(FLOAT_LEAVES), "bool": list(BOOL_LEAVES)}


def grow(pool: dict) -> dict:
    """All trees whose operands come from ``pool`` (by type), grouped by result type."""
    out = {"int": [], "float": [], "bool": []}
    ints, floats, bools = pool["int"], pool["float"], pool["bool"]
    nums = [(e, "int") for e in ints] + [(e, "float") for e in floats]
    for op in ARITH:
        for (a, ta), (b, tb) in itertools.product(nums, nums):
            out["float" if "float" in (ta, tb) else "int"].append(op(a, b))
    for op in CMPS:
        for a, b in itertools.product(ints, ints):
            out["bool"].append(op(a, b))
    for op in (ir.Equal, ir.NotEqual):
        for a, b in itertools.product(bools, bools):
            out["bool"].append(op(a, b))
    for op in (ir.And, ir.Or):
        for a, b in itertools.product(bools, bools):
            out["bool"].append(op(a, b))
    for op in (ir.Min, ir.Max):
        for a, b in itertools.product(ints, ints):
            out["int"].append(op(a, b))
    for a in bools:
        out["int"].append(ir.BooleanToInteger(a))
    return out


def grow_iter(pool: dict):
    """Same as grow() but lazily, in a fixed order (for sharding by index)."""
    ints, floats, bools = pool["int"], pool["float"], pool["bool"]
    nums = ints + floats
    for op in ARITH:
        for a in nums:
            for b in nums:
                yield op(a, b)
    for op in CMPS:
        for a in ints:
            for b in ints:
                yield op(a, b)
    for op in (ir.Equal, ir.NotEqual, ir.And, ir.Or):
        for a in bools:
            for b in bools:
                yield op(a, b)
    for op in (ir.Min, ir.Max):
        for a in ints:
            for b in ints:
                yield op(a, b)
    for a in bools:
        yield ir.BooleanToInteger(a)


def merge(p1: dict, p2: dict) -> dict:
    return {k: p1[k] + p2[k] for k in p1}


# ------------------------------------------------------------------------------ meaning


class Env:
    """Symbolic environment for tree meanings."""

    def __init__(self, float_sort="real"):
        self.vars = {
            "x": z3.Int("x"), "y": z3.Int("y"),
            "u": z3.Real("u"), "v": z3.Real("v"),
            "p": z3.Bool("p"), "q": z3.Bool("q"),
        }
        self.arrays = {
            "ia": (z3.Array("ia", sym.IntSort, sym.IntSort), z3.Int("ia_len"), "int"),
            "fa": (z3.Array("fa", sym.IntSort, sym.RealSort), z3.Int("fa_len"), "float"),
        }
        self.pre = [sym.in_int32(self.vars["x"]), sym.in_int32(self.vars["y"]),
                    self.arrays["ia"][1] >= 0, self.arrays["ia"][1] <= 3,
                    self.arrays["fa"][1] >= 0, self.arrays["fa"][1] <= 3]
        # array cells hold int32 values
        for k in range(3):
            self.pre.append(sym.in_int32(z3.Select(self.arrays["ia"][0], k)))
        self.cache = {}
        self.check_overflow = True
        self.float_mode = float_sort  # 'real' (exact) or 'uf' (operation DAG preserved)
        self.wrap = False  # int32 arithmetic wraps (two's complement) instead of being checked

    def int_result(self, v, safe):
        """Result and safety of an int32 operation under the environment's overflow policy."""
        if self.wrap:
            if isinstance(v, int):
                return ((v + 2**31) % 2**32) - 2**31, safe
            return ((v + 2**31) % 2**32) - 2**31, safe
        if self.check_overflow:
            return v, band(safe, sym.in_int32(v))
        return v, safe

    # float operations (values: Fraction constants or z3 Real-sorted terms)
    def fadd(self, a, b):
        if self.float_mode == "uf":
            return sym.uf_add(rz(a), rz(b))
        return radd(a, b)

    def fsub(self, a, b):
        if self.float_mode == "uf":
            return sym.uf_sub(rz(a), rz(b))
        return rsub(a, b)

    def fmul(self, a, b):
        if self.float_mode == "uf":
            return sym.uf_mul(rz(a), rz(b))
        return rmul(a, b)

    def itof(self, x):
        if isinstance(x, (int, Fraction)) and not isinstance(x, bool):
            return Fraction(x)
        if self.float_mode == "uf":
            return sym._sitofp(x)
        return z3.ToReal(x)


def fr(x):
    """numeric -> z3 Real / Fraction"""
    if isinstance(x, (int, Fraction)) and not isinstance(x, bool):
        return Fraction(x)
    if isinstance(x, z3.ArithRef) and x.is_int():
        return z3.ToReal(x)
    return x


def rz(x):
    return sym.rv(x) if isinstance(x, Fraction) else x


def radd(a, b):
    if isinstance(a, Fraction) and isinstance(b, Fraction):
        return a + b
    return rz(a) + rz(b)


def rsub(a, b):
    if isinstance(a, Fraction) and isinstance(b, Fraction):
        return a - b
    return rz(a) - rz(b)


def rmul(a, b):
    if isinstance(a, Fraction) and isinstance(b, Fraction):
        return a * b
    return rz(a) * rz(b)


def meaning(e, env: Env):
    """(type, value, safe, accesses) — memoised per environment."""
    key = e
    hit = env.cache.get(key)
    if hit is not None:
        return hit
    r = _meaning(e, env)
    env.cache[key] = r
    return r


def _meaning(e, env):
    t = type(e)
    if t is ir.Variable:
        if e.name in env.vars:
            return (VAR_TYPES[e.name], env.vars[e.name], True, ())
        if e.name in env.arrays:
            return (VAR_TYPES[e.name], e.name, True, ())
        raise KeyError(e.name)
    if t is ir.IntegerLiteral:
        # a literal is a mathematical integer; only operations are range-checked
        return ("int", e.value, True, ())
    if t is ir.FloatLiteral:
        return ("float", Fraction(e.value), True, ())
    if t is ir.BooleanLiteral:
        return ("bool", e.value, True, ())
    if t in ARITH:
        ta, a, sa, aa = meaning(e.left, env)
        tb, b, sb, ab = meaning(e.right, env)
        safe = band(sa, sb)
        acc = aa + ab
        if ta == "int" and tb == "int":
            v = iadd(a, b) if t is ir.Add else isub(a, b) if t is ir.Subtract else imul(a, b)
            v, safe = env.int_result(v, safe)
            return ("int", v, safe, acc)
        if ta in ("int", "float") and tb in ("int", "float"):
            a = env.itof(a) if ta == "int" else a
            b = env.itof(b) if tb == "int" else b
            v = env.fadd(a, b) if t is ir.Add else env.fsub(a, b) if t is ir.Subtract else env.fmul(a, b)
            return ("float", v, safe, acc)
        raise TypeError("ill-typed arithmetic")
    if t in CMPS:
        ta, a, sa, aa = meaning(e.left, env)
        tb, b, sb, ab = meaning(e.right, env)
        if ta == "bool":
            v = sym.beq(a, b)
            if t is ir.NotEqual:
                v = bnot(v)
        else:
            v = icmp(CMP_OP[t], a, b)
        return ("bool", v, band(sa, sb), aa + ab)
    if t is ir.And:
        ta, a, sa, aa = meaning(e.left, env)
        tb, b, sb, ab = meaning(e.right, env)
        return ("bool", band(a, b), band(sa, bimplies(a, sb)),
                aa + tuple((band(a, g), n, i) for g, n, i in ab))
    if t is ir.Or:
        ta, a, sa, aa = meaning(e.left, env)
        tb, b, sb, ab = meaning(e.right, env)
        return ("bool", bor(a, b), band(sa, bor(a, sb)),
                aa + tuple((band(bnot(a), g), n, i) for g, n, i in ab))
    if t in (ir.Min, ir.Max):
        ta, a, sa, aa = meaning(e.left, env)
        tb, b, sb, ab = meaning(e.right, env)
        c = icmp("<" if t is ir.Min else ">", a, b)
        return ("int", ite(c, a, b), band(sa, sb), aa + ab)
    if t is ir.BooleanToInteger:
        ta, a, sa, aa = meaning(e.expression, env)
        return ("int", ite(a, 1, 0), sa, aa)
    if t is ir.ArrayIndex:
        ta, name, sa, aa = meaning(e.target, env)
        tb, i, sb, ab = meaning(e.index, env)
        arr, length, elem = env.arrays[name]
        inb = band(icmp(">=", i, 0), icmp("<", i, length))
        v = z3.Select(arr, zi(i))
        return (elem, v, band(sa, sb, inb), aa + ab + ((True, name, i),))
    raise TypeError(f"no meaning for {t.__name__}")


def values_equal(ta, a, tb, b):
    """Numerical equality across int/float (the sign of zero is not observable over Reals)."""
    if ta == "bool" or tb == "bool":
        if ta != tb:
            return False
        return sym.beq(a, b)
    if ta == "int" and tb == "int":
        return icmp("==", a, b)
    a, b = fr(a), fr(b)
    if isinstance(a, Fraction) and isinstance(b, Fraction):
        return a == b
    return rz(a) == rz(b)


def accesses_contained(acc_new, acc_old):
    """Every access of the new tree (when its guard holds) is matched by one of the old tree."""
    conds = []
    for g, n, i in acc_new:
        alts = [band(g0, icmp("==", i0, i)) for g0, n0, i0 in acc_old if n0 == n]
        conds.append(bimplies(g, bor(*alts)))
    return band(*conds)
