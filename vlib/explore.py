"""Path exploration of generated kernels on symbolic well-formed inputs."""

from __future__ import annotations

import itertools
import time
from dataclasses import dataclass, field
from fractions import Fraction

import z3
from tensora.format import Mode

from . import sym, tensors
from .irexec import IRExec
from .kse import HarnessError, Infeasible, Machine, Stats, Violation
from .request import Compiled
from .spec import occurrences


def cap_sentinel():
    from tensora.iteration_graph.outputs import _append

    return _append.default_array_size


def index_classes(assignment) -> dict[str, str]:
    """Indexes forced to have equal size because one tensor is used with several index lists."""
    parent: dict[str, str] = {}

    def find(x):
        parent.setdefault(x, x)
        while parent[x] != x:
            parent[x] = parent[parent[x]]
            x = parent[x]
        return x

    def union(a, b):
        ra, rb = find(a), find(b)
        if ra != rb:
            parent[max(ra, rb)] = min(ra, rb)

    for i in assignment.target.indexes:
        find(i)
    for name, occs in assignment.expression.variables().items():
        first = occs[0]
        for i in first.indexes:
            find(i)
        for other in occs[1:]:
            for a, b in zip(first.indexes, other.indexes):
                union(a, b)
    return {i: find(i) for i in list(parent)}


def tensor_index_lists(assignment) -> dict[str, tuple]:
    out = {assignment.target.name: assignment.target.indexes}
    for name, occs in assignment.expression.variables().items():
        out[name] = occs[0].indexes
    return out


def dense_used_classes(comp: Compiled) -> set[str]:
    """Index classes that some tensor stores in a dense level (their sizes enter p*dim+i)."""
    cls = index_classes(comp.assignment)
    lists = tensor_index_lists(comp.assignment)
    out = set()
    for name, fmt in comp.formats.items():
        idxs = lists[name]
        for l, mode in enumerate(fmt.modes):
            if mode == Mode.dense:
                out.add(cls[idxs[fmt.ordering[l]]])
    return out


@dataclass
class Setup:
    comp: Compiled
    dimvals: dict  # index class -> int | z3 Int
    max_nnz: int
    symbolic_cap: bool = True
    uf_vals: bool = False
    infos: dict = field(default_factory=dict)
    cache: dict = field(default_factory=dict)
    _template: object = None
    _solver_with_base: object = None

    def dims_of(self, name):
        cls = index_classes(self.comp.assignment)
        lists = tensor_index_lists(self.comp.assignment)
        return [self.dimvals[cls[i]] for i in lists[name]]

    def apply(self, m: Machine):
        """Install the symbolic inputs on a machine.  The z3 terms, the input blocks and the
        representation-invariant constraints are built once per Setup (template) and shared by
        all paths; only the output struct is per path."""
        if self._template is None:
            self._build_template()
        tm = self._template
        m.heap.blocks = list(tm.heap.blocks)
        m.tensors = {}
        for name, ts in tm.tensors.items():
            if ts.is_output:
                ts = tensors.TensorStruct(ts.name, ts.order, ts.dimensions,
                                          [None if lv is None else list(lv) for lv in ts.levels],
                                          ts.vals, True, ts.modes, ts.ordering)
            m.tensors[name] = ts
        m.cap0 = tm.cap0
        if m.solver is not self._solver_with_base:
            for c in tm.pc:
                m.solver.add(c)
        m.pc = list(tm.pc)

    def shared_solver(self, timeout_ms=60000):
        """A solver that already holds the input constraints (paths use push/pop on it)."""
        if self._template is None:
            self._build_template()
        sv = z3.Solver()
        sv.set("timeout", timeout_ms)
        for c in self._template.pc:
            sv.add(c)
        self._solver_with_base = sv
        return sv

    def _build_template(self):
        class _Rec(Machine):
            def assume(self_inner, c):  # noqa: N805
                if isinstance(c, bool):
                    if not c:
                        raise Infeasible()
                    return
                self_inner.pc.append(c)

        m = _Rec(concrete=True)
        m.concrete = False
        comp = self.comp
        occ = occurrences(comp.assignment)
        self.infos = {}
        for v in self.dimvals.values():
            if not isinstance(v, int):
                m.assume(v >= 0)
                m.assume(v <= sym.INT_MAX)
        for name, fmt in comp.formats.items():
            dims = self.dims_of(name)
            if name == comp.target:
                tensors.make_output_struct(m, name, fmt, dims)
            else:
                self.infos[name] = tensors.make_symbolic_tensor(
                    m, name, fmt, dims, self.max_nnz, occ.get(name, 1), uf_vals=self.uf_vals
                )
        if self.symbolic_cap:
            m.cap0 = z3.Int("cap0")
            m.assume(m.cap0 >= 1)
            m.assume(m.cap0 <= 2**20)
        self._template = m


def unwind_bound(setup: Setup) -> int:
    """Loop bound per loop instance, derived from the input bounds: a loop runs over one dense extent,
    over the stored entries of the operands it co-iterates, or (bucket initialisation) over the
    product of the output's dense extents; + 2 slack.  Exceeding it is reported, never truncated."""
    conc = [v for v in setup.dimvals.values() if isinstance(v, int)]
    dmax = max(conc + [1])
    order = setup.comp.formats[setup.comp.target].order
    bucket = 1
    for v in sorted(conc, reverse=True)[: max(order, 1)]:
        bucket *= max(v, 1)
    n_inputs = max(1, len(setup.comp.formats) - 1)
    return max(dmax, bucket) + setup.max_nnz * n_inputs + 2


class Budget(Exception):
    pass


def run_paths(make_machine, body, *, max_paths=None, deadline=None, stats: Stats | None = None):
    """Replay-forking DFS.  ``make_machine(prefix)`` -> Machine; ``body(m)`` runs one path and
    performs the end-of-path assertions.  Violations propagate to the caller."""
    work = [[]]
    stats = stats if stats is not None else Stats()
    while work:
        if max_paths is not None and stats.paths >= max_paths:
            raise Budget(f"path budget {max_paths} exhausted with {len(work)} prefixes pending")
        if deadline is not None and time.process_time() > deadline:
            raise Budget(f"time budget exhausted with {len(work)} prefixes pending")
        prefix = work.pop()
        m = make_machine(prefix)
        shared = getattr(m, "shared_solver", False)
        if shared:
            m.solver.push()
        try:
            body(m)
            m.flush_obligations()
            stats.paths += 1
        except Infeasible:
            stats.infeasible += 1
        finally:
            _acc(stats, m.stats)
            if shared:
                m.solver.pop()
        work.extend(m.pending)
    return stats


def _acc(total: Stats, s: Stats):
    total.decisions += s.decisions
    total.queries += s.queries
    total.solver_s += s.solver_s
    total.obligations += s.obligations
    total.loop_iters += s.loop_iters


# ----------------------------------------------------------------------------- model decoding


def mval(model, t):
    if isinstance(t, (int, bool)):
        return t
    v = model.eval(t, model_completion=True)
    if z3.is_int_value(v):
        return v.as_long()
    if z3.is_true(v):
        return True
    if z3.is_false(v):
        return False
    if z3.is_rational_value(v):
        return Fraction(v.numerator_as_long(), v.denominator_as_long())
    raise HarnessError(f"cannot decode {v}")


def decode_inputs(model, setup: Setup) -> dict:
    """Concrete input tensors (raw taco arrays) from a model."""
    out = {}
    comp = setup.comp
    dimvals = {k: mval(model, v) for k, v in setup.dimvals.items()}
    for name, info in setup.infos.items():
        fmt = info.fmt
        dims = [mval(model, d) for d in info.dims]
        indices = []
        n_prev = 1
        for l, mode in enumerate(fmt.modes):
            if mode == Mode.dense:
                indices.append([])
                n_prev *= dims[fmt.ordering[l]]
            else:
                lv = info.levels[l]
                pos = [mval(model, z3.Select(lv.pos, k)) for k in range(n_prev + 1)]
                n = pos[-1]
                crd = [mval(model, z3.Select(lv.crd, q)) for q in range(n)]
                indices.append([pos, crd])
                n_prev = n
        vals = [Fraction(0)] * n_prev
        for e, weights in info.hot:
            ev = mval(model, e)
            if 0 <= ev < n_prev:
                for g, w in weights:
                    if g is True or mval(model, g):
                        vals[ev] += w
        out[name] = {
            "format": fmt.deparse(),
            "dimensions": dims,
            "indices": indices,
            "vals": [str(v) for v in vals],
        }
    target_dims = [dimvals_of(model, setup, comp.target)]
    return {
        "inputs": out,
        "output_dimensions": target_dims[0],
        "cap0": mval(model, z3.Int("cap0")) if setup.symbolic_cap else None,
        "dimvals": dimvals,
    }


def dimvals_of(model, setup: Setup, name):
    return [mval(model, d) for d in setup.dims_of(name)]


def dim_vectors(classes: list[str], D: int, mode: str):
    """Dimension vectors for the enumerated (dense-used) index classes."""
    if not classes:
        return [{}]
    if mode == "full":
        vecs = [dict(zip(classes, v)) for v in itertools.product(range(D + 1), repeat=len(classes))]
        return vecs
    # corners: all D, all 1, each single zero, one mixed
    out = []
    seen = set()

    def add(v):
        t = tuple(v[c] for c in classes)
        if t not in seen:
            seen.add(t)
            out.append(dict(v))

    add({c: D for c in classes})
    add({c: 1 for c in classes})
    for z in classes:
        add({c: (0 if c == z else D) for c in classes})
    if len(classes) > 1 and D >= 2:
        add({c: (D if k % 2 == 0 else D - 1) for k, c in enumerate(classes)})
        add({c: (D - 1 if k % 2 == 0 else D) for k, c in enumerate(classes)})
    return out
