"""E2 (LLVM): execute the textual LLVM IR emitted by tensora's LLVM back end on the E1 machine.

Only the instruction subset the back end emits is understood; anything else is a harness error
(exit 2), never silently skipped."""

from __future__ import annotations

import re
import struct

import z3

from . import sym
from .kse import FieldRef, HarnessError, LevelRef, Machine, Ptr, TRef, Violation
from .sym import PW, UF, band, bnot, icmp, ite, simp_bool, simp_int


def split_top(s: str, sep=","):
    out, depth, cur = [], 0, []
    for ch in s:
        if ch in "{([":
            depth += 1
        elif ch in "})]":
            depth -= 1
        if ch == sep and depth == 0:
            out.append("".join(cur).strip())
            cur = []
        else:
            cur.append(ch)
    if cur:
        out.append("".join(cur).strip())
    return out


def type_value(s: str):
    """'T V' -> (T, V) where V has no spaces."""
    s = s.strip()
    k = s.rfind(" ")
    return s[:k].strip(), s[k + 1:].strip()


class Function:
    def __init__(self, name, params, blocks, order):
        self.name = name
        self.params = params  # [(type, reg)]
        self.blocks = blocks  # label -> [instruction strings]
        self.order = order  # labels in textual order


_DEFINE = re.compile(r'^define\s+(\S+)\s+@"?([^"(]+)"?\((.*)\)\s*$')
_LABEL = re.compile(r'^"?([^":\s]+)"?:\s*$')


def parse_module(text: str) -> dict:
    """name -> Function"""
    funcs = {}
    lines = text.splitlines()
    i = 0
    while i < len(lines):
        line = lines[i].strip()
        m = _DEFINE.match(line)
        if not m:
            i += 1
            continue
        name = m.group(2)
        params = [type_value(p) for p in split_top(m.group(3))] if m.group(3).strip() else []
        i += 1
        if lines[i].strip() != "{":
            raise HarnessError("expected '{' after define")
        i += 1
        blocks, order, cur = {}, [], None
        while lines[i].strip() != "}":
            ln = lines[i].strip()
            i += 1
            if not ln or ln.startswith(";"):
                continue
            lm = _LABEL.match(ln)
            if lm:
                cur = lm.group(1)
                blocks[cur] = []
                order.append(cur)
                continue
            if cur is None:
                raise HarnessError("instruction outside a block")
            blocks[cur].append(ln)
        funcs[name] = Function(name, params, blocks, order)
        i += 1
    return funcs


class Slot:
    __slots__ = ("name", "type")

    def __init__(self, name, type):
        self.name = name
        self.type = type


class FieldAddr:
    __slots__ = ("tensor", "field")

    def __init__(self, tensor, field):
        self.tensor = tensor
        self.field = field


class LevelAddr:
    __slots__ = ("tensor", "level")

    def __init__(self, tensor, level):
        self.tensor = tensor
        self.level = level


class SlotAddr:
    __slots__ = ("tensor", "level", "k")

    def __init__(self, tensor, level, k):
        self.tensor = tensor
        self.level = level
        self.k = k


class Raw:
    """Result of malloc/realloc before the bitcast that gives it an element type."""

    __slots__ = ("old", "bytes")

    def __init__(self, old, bytes):
        self.old = old
        self.bytes = bytes


def exact_div(term, k):
    term = simp_int(term)
    if isinstance(term, int):
        if term % k:
            raise HarnessError("allocation size is not a multiple of the element size")
        return term // k
    if z3.is_app_of(term, z3.Z3_OP_ITE):
        c, a, b = term.children()
        return z3.If(c, sym.zi(exact_div(a, k)), sym.zi(exact_div(b, k)))
    q = z3.simplify(term / k)
    s = q.sexpr()
    if "div" in s or "/" in s:
        raise HarnessError(f"cannot divide allocation size exactly: {term}")
    return simp_int(q)


ICMP = {"eq": "==", "ne": "!=", "slt": "<", "sle": "<=", "sgt": ">", "sge": ">="}
UCMP = {"ult": "<", "ule": "<=", "ugt": ">", "uge": ">="}


def icmp_pred(pred, va, vb):
    """LLVM icmp on i32 values held as mathematical integers in [-2^31, 2^31): unsigned predicates compare the
    bit patterns."""
    if pred in ICMP:
        return icmp(ICMP[pred], va, vb)
    if pred in UCMP:
        ua = sym.simp_int(sym.ite(icmp("<", va, 0), sym.iadd(va, 2**32), va))
        ub = sym.simp_int(sym.ite(icmp("<", vb, 0), sym.iadd(vb, 2**32), vb))
        return icmp(UCMP[pred], ua, ub)
    raise HarnessError(f"icmp predicate {pred}")


def is_float(v):
    return isinstance(v, (PW, UF))


class LLExec:
    def __init__(self, m: Machine, cap_literal=None):
        self.m = m
        self.regs = {}
        self.slots = {}
        self.unchecked = {}  # results of `mul i32 <sizeof>, n`: range-checked where they are used
        self.cap_literal = cap_literal
        from tensora.codegen._type_to_llvm import attribute_indexes

        self.field_of = {v: k for k, v in attribute_indexes.items()}

    # ---- operands
    def val(self, ty: str, tok: str):
        m = self.m
        if tok.startswith("%"):
            name = tok[1:].strip('"')
            if name not in self.regs:
                raise HarnessError(f"undefined register {tok}")
            if name in self.unchecked:
                # used as an ordinary i32: it must not have wrapped
                r = self.unchecked.pop(name)
                m.oblige(sym.in_int32(r) if not isinstance(r, int) else (sym.INT_MIN <= r <= sym.INT_MAX),
                         ("int32 overflow", ("llvm mul",)))
            return self.regs[name]
        if ty == "double":
            if tok.startswith("0x"):
                f = struct.unpack(">d", bytes.fromhex(tok[2:].rjust(16, "0")))[0]
            else:
                f = float(tok)
            return m.falg.const(sym.frac_of_float(f))
        if ty == "i1":
            return {"true": True, "false": False, "1": True, "0": False}[tok]
        if ty.startswith("i"):
            return int(tok)
        if tok == "null":
            return Ptr(0, 0)
        raise HarnessError(f"operand {ty} {tok}")

    # ---- execution
    def run(self, fn: Function, args: list[str]):
        m = self.m
        self.regs = {}
        self.slots = {}
        if len(args) != len(fn.params):
            raise HarnessError("arity mismatch")
        for (ty, reg), a in zip(fn.params, args):
            self.regs[reg[1:].strip('"')] = TRef(a) if isinstance(a, str) else a
        cur = fn.order[0]
        prev = None
        loop_counts = {}
        while True:
            jumped = None
            for ins in fn.blocks[cur]:
                r = self.step(ins, prev)
                if r is None:
                    continue
                kind, payload = r
                if kind == "ret":
                    return payload
                if kind == "br":
                    jumped = payload
                    break
            if jumped is None:
                raise HarnessError(f"block {cur} falls through")
            # unwinding: count back edges by target label
            if fn.order.index(jumped) <= fn.order.index(cur):
                loop_counts[jumped] = loop_counts.get(jumped, 0) + 1
                m.stats.loop_iters += 1
                if loop_counts[jumped] > m.max_loop_iter + 1:
                    m.flush_obligations()
                    m.check()
                    raise Violation("unwind", ("LLVM loop still running after", m.max_loop_iter), m.solver.model())
            prev, cur = cur, jumped

    def step(self, ins: str, prev):
        m = self.m
        dest = None
        if ins.startswith("%"):
            lhs, rhs = ins.split("=", 1)
            dest = lhs.strip()[1:].strip('"')
            ins = rhs.strip()
        op, _, rest = ins.partition(" ")
        rest = rest.strip()
        if op == "alloca":
            self.regs[dest] = Slot(dest, rest)
            self.slots[dest] = None
            return None
        if op == "store":
            a, b = split_top(rest)
            vt, vv = type_value(a)
            pt, pv = type_value(b)
            self.store(self.val(pt, pv), self.val(vt, vv), vt)
            return None
        if op == "load":
            a, b = split_top(rest)
            pt, pv = type_value(b)
            self.regs[dest] = self.load(self.val(pt, pv), a.strip())
            return None
        if op == "getelementptr":
            parts = split_top(rest)
            base_t = parts[0]
            pt, pv = type_value(parts[1])
            p = self.val(pt, pv)
            idxs = [self.val(*type_value(x)) for x in parts[2:]]
            self.regs[dest] = self.gep(base_t, p, idxs)
            return None
        if op in ("add", "sub", "mul"):
            ty, ops = rest.split(" ", 1)
            a, b = [x.strip() for x in split_top(ops)]
            va, vb = self.val(ty, a), self.val(ty, b)
            if ty != "i32":
                raise HarnessError(f"{op} on {ty}")
            if op == "mul" and self.cap_literal is not None and m.cap0 is not None and \
                    (va, vb) == self.cap_literal and not a.startswith("%") and not b.startswith("%"):
                self.regs[dest] = m.cap0
            elif op == "mul" and not a.startswith("%") and va in (4, 8) and b.startswith("%"):
                # sizeof * n: wraps modulo 2^32 and is then zero-extended (checked at the zext)
                r = sym.imul(va, vb)
                self.regs[dest] = r
                self.unchecked[dest] = r
            else:
                self.regs[dest] = m.int_op({"add": "+", "sub": "-", "mul": "*"}[op], va, vb, ("llvm " + op,))
            return None
        if op in ("fadd", "fsub", "fmul"):
            ty, ops = rest.split(" ", 1)
            a, b = [x.strip() for x in split_top(ops)]
            va, vb = self.val(ty, a), self.val(ty, b)
            f = m.falg
            self.regs[dest] = f.add(va, vb) if op == "fadd" else f.sub(va, vb) if op == "fsub" else f.mul(va, vb)
            return None
        if op in ("sitofp", "uitofp"):
            mm = re.match(r"(\S+)\s+(\S+)\s+to\s+(\S+)", rest)
            v = self.val(mm.group(1), mm.group(2))
            if op == "uitofp":
                # the i32 bit pattern read as unsigned
                v = simp_int(ite(icmp("<", v, 0), sym.iadd(v, 2**32), v))
            self.regs[dest] = m.falg.from_int(v)
            return None
        if op == "sext":
            mm = re.match(r"(\S+)\s+(\S+)\s+to\s+(\S+)", rest)
            self.regs[dest] = self.val(mm.group(1), mm.group(2))
            return None
        if op == "icmp":
            pred, rest2 = rest.split(" ", 1)
            ty, ops = rest2.split(" ", 1)
            a, b = [x.strip() for x in split_top(ops)]
            va, vb = self.val(ty, a), self.val(ty, b)
            if ty == "i1":
                if pred not in ("eq", "ne"):
                    raise HarnessError("ordered icmp on i1")
                r = sym.beq(va, vb)
                self.regs[dest] = r if pred == "eq" else bnot(r)
            else:
                self.regs[dest] = icmp_pred(pred, va, vb)
            return None
        if op == "zext":
            mm = re.match(r"(\S+)\s+(\S+)\s+to\s+(\S+)", rest)
            src = mm.group(2)[1:].strip('"') if mm.group(2).startswith("%") else None
            if src in self.unchecked:
                # i32 product reinterpreted as unsigned: exact iff 0 <= sizeof * n < 2^32
                r = self.unchecked.pop(src)
                m.oblige(band(icmp(">=", r, 0), icmp("<", r, 2**32)),
                         ("allocation byte count wraps in i32 before zext", ("llvm mul/zext",)))
                self.regs[dest] = r
                return None
            v = self.val(mm.group(1), mm.group(2))
            if mm.group(1) == "i1":
                self.regs[dest] = simp_int(ite(v, 1, 0))
            else:
                m.oblige(icmp(">=", v, 0), ("zext of a negative i32",))
                self.regs[dest] = v
            return None
        if op == "bitcast":
            mm = re.match(r"(.+?)\s+(\S+)\s+to\s+(.+)", rest)
            v = self.val(mm.group(1), mm.group(2))
            to = mm.group(3).strip()
            if isinstance(v, Raw):
                elem = {"i32*": ("int", 4), "double*": ("float", 8)}.get(to)
                if elem is None:
                    raise HarnessError(f"bitcast of allocation to {to}")
                n = exact_div(v.bytes, elem[1])
                if v.old is None:
                    self.regs[dest] = m.allocate(elem[0], n, ("malloc",))
                else:
                    self.regs[dest] = m.reallocate(v.old, elem[0], n, ("realloc",))
            else:
                self.regs[dest] = v
            return None
        if op == "call":
            mm = re.match(r'(\S+)\s+@"?(\w+)"?\((.*)\)', rest)
            name = mm.group(2)
            args = [self.val(*type_value(x)) for x in split_top(mm.group(3))]
            if name == "malloc":
                self.regs[dest] = Raw(None, args[0])
            elif name == "realloc":
                if not isinstance(args[0], Ptr):
                    raise HarnessError("realloc of non-pointer")
                self.regs[dest] = Raw(args[0], args[1])
            else:
                raise HarnessError(f"call of {name}")
            return None
        if op == "select":
            c, a, b = split_top(rest)
            vc = self.val(*type_value(c))
            ta, va = type_value(a)
            tb, vb = type_value(b)
            va, vb = self.val(ta, va), self.val(tb, vb)
            if ta == "double":
                self.regs[dest] = m.falg.select(vc, va, vb)
            elif ta == "i1":
                self.regs[dest] = simp_bool(z3.If(sym.zb(vc), sym.zb(va), sym.zb(vb))) if not isinstance(vc, bool) else (va if vc else vb)
            else:
                self.regs[dest] = simp_int(ite(vc, va, vb))
            return None
        if op == "phi":
            ty, ops = rest.split(" ", 1)
            for part in split_top(ops):
                mm = re.match(r'\[\s*(\S+)\s*,\s*%"?([^"\]\s]+)"?\s*\]', part)
                if mm.group(2) == prev:
                    self.regs[dest] = self.val(ty, mm.group(1))
                    return None
            from .kse import Violation

            raise Violation("ill-formed", ("LLVM phi has no entry for its predecessor block (the verifier rejects the module)", prev))
        if op == "br":
            if rest.startswith("label"):
                return ("br", rest.split("%")[1].strip().strip('"'))
            mm = re.match(r'i1\s+(\S+)\s*,\s*label\s+%"?([^",\s]+)"?\s*,\s*label\s+%"?([^",\s]+)"?', rest)
            c = self.val("i1", mm.group(1))
            return ("br", mm.group(2) if m.decide(c) else mm.group(3))
        if op == "ret":
            ty, v = type_value(rest)
            return ("ret", self.val(ty, v))
        raise HarnessError(f"unsupported LLVM instruction: {op} {rest[:80]}")

    # ---- memory
    def gep(self, base_t, p, idxs):
        m = self.m
        if isinstance(p, TRef):
            if len(idxs) != 2 or idxs[0] != 0 or idxs[1] not in self.field_of:
                raise HarnessError(f"struct gep {idxs}")
            return FieldAddr(p.name, self.field_of[idxs[1]])
        if len(idxs) != 1:
            raise HarnessError("multi-index gep on non-struct")
        i = idxs[0]
        if isinstance(p, FieldRef):
            i = simp_int(i)
            ts = m.tensors[p.tensor]
            if not isinstance(i, int) or not (0 <= i < ts.order):
                m.oblige(False, ("indices[] out of bounds", p.tensor))
            return LevelAddr(p.tensor, i)
        if isinstance(p, LevelRef):
            i = simp_int(i)
            lv = m.tensors[p.tensor].levels[p.level]
            if lv is None or not isinstance(i, int) or not (0 <= i < 2):
                m.oblige(False, ("indices[l][k] out of bounds", p.tensor))
            return SlotAddr(p.tensor, p.level, i)
        if isinstance(p, Ptr):
            return Ptr(p.block, simp_int(sym.iadd(p.off, i)))
        raise HarnessError(f"gep on {type(p).__name__}")

    def load(self, p, ty):
        m = self.m
        if isinstance(p, Slot):
            v = self.slots[p.name]
            if v is None:
                m.oblige(False, ("read of uninitialised variable", p.name))
            return v
        if isinstance(p, FieldAddr):
            ts = m.tensors[p.tensor]
            if p.field == "dimensions":
                return ts.dimensions
            if p.field == "vals":
                return ts.vals
            if p.field == "indices":
                return FieldRef(p.tensor, "indices")
            raise HarnessError(p.field)
        if isinstance(p, LevelAddr):
            return LevelRef(p.tensor, p.level)
        if isinstance(p, SlotAddr):
            return m.tensors[p.tensor].levels[p.level][p.k]
        if isinstance(p, Ptr):
            return m.load(p, ("llvm load",))
        raise HarnessError(f"load from {type(p).__name__}")

    def store(self, p, v, vt):
        m = self.m
        if isinstance(p, Slot):
            if p.type == "double" and not is_float(v):
                raise HarnessError("int stored to double slot without sitofp")
            self.slots[p.name] = v
            return
        if isinstance(p, FieldAddr):
            ts = m.tensors[p.tensor]
            if not ts.is_output:
                m.oblige(False, ("store into an input tensor's struct", p.tensor))
            if p.field == "vals" and isinstance(v, Ptr):
                ts.vals = v
                return
            m.oblige(False, ("store to immutable struct field", p.tensor, p.field))
        if isinstance(p, SlotAddr):
            ts = m.tensors[p.tensor]
            if not ts.is_output:
                m.oblige(False, ("store into an input tensor's struct", p.tensor))
            if not isinstance(v, Ptr):
                raise HarnessError("non-pointer stored to indices slot")
            ts.levels[p.level][p.k] = v
            return
        if isinstance(p, Ptr):
            b = m.heap[p.block]
            if b.elem == "float" and not is_float(v):
                raise HarnessError("integer stored to double array without sitofp")
            m.store(p, v, ("llvm store",))
            return
        raise HarnessError(f"store to {type(p).__name__}")
