"""Replay of solver models: concrete IR machine, the real JIT kernel (subprocess), and the
emitted C under ASan/UBSan.  Also the concrete (numeric) oracles used to judge replays."""

from __future__ import annotations

import itertools
import json
import os
import subprocess
import sys
import tempfile
from fractions import Fraction

from tensora.format import Mode, parse_format

from . import spec as specmod
from . import tensors
from .irexec import IRExec
from .kse import HarnessError, Machine, Violation

REPO = os.environ.get("TENSORA_VERIF_REPO", "/repo")


# ------------------------------------------------------------------ concrete oracles


def raw_entries(fmt, dims, indices, vals):
    """[(coord tuple in dimension order, position)] of a raw taco structure (no validation)."""
    order = fmt.order
    out = []

    def rec(l, p, coords):
        if l == order:
            out.append((tuple(coords[d] for d in range(order)), p))
            return
        d = fmt.ordering[l]
        if fmt.modes[l] == Mode.dense:
            for c in range(dims[d]):
                coords[d] = c
                rec(l + 1, p * dims[d] + c, coords)
        else:
            pos, crd = indices[l]
            for q in range(pos[p], pos[p + 1]):
                coords[d] = crd[q]
                rec(l + 1, q, coords)

    rec(0, 0, {})
    return out


def wf_problems(fmt, dims, indices, n_vals):
    """The canonical-form contract of C02 on raw arrays."""
    probs = []
    n_prev = 1
    for l, mode in enumerate(fmt.modes):
        dim = dims[fmt.ordering[l]]
        if mode == Mode.dense:
            n_prev *= dim
            continue
        pos, crd = indices[l]
        if len(pos) != n_prev + 1:
            probs.append(f"level {l}: len(pos)={len(pos)} != {n_prev + 1}")
            return probs
        if pos[0] != 0:
            probs.append(f"level {l}: pos[0]={pos[0]}")
        if any(a > b for a, b in zip(pos, pos[1:])):
            probs.append(f"level {l}: pos decreases {pos}")
        if len(crd) != pos[-1]:
            probs.append(f"level {l}: len(crd)={len(crd)} != pos[-1]={pos[-1]}")
            return probs
        if any(not (0 <= c < dim) for c in crd):
            probs.append(f"level {l}: crd out of range {crd}")
        for k in range(n_prev):
            seg = crd[pos[k]:pos[k + 1]]
            if any(a >= b for a, b in zip(seg, seg[1:])):
                probs.append(f"level {l}: segment {k} not strictly increasing {seg}")
        n_prev = len(crd)
    if n_vals < n_prev:
        probs.append(f"vals shorter ({n_vals}) than stored positions ({n_prev})")
    return probs


def to_dense(fmt, dims, indices, vals):
    out = {}
    for coord, p in raw_entries(fmt, dims, indices, vals):
        out[coord] = out.get(coord, Fraction(0)) + Fraction(vals[p])
    return out


def spec_concrete(assignment, inputs: dict, index_dims: dict):
    """Mathematical value of the assignment (exact rationals), computed sparsely: every monomial is
    the join of the stored entries of its tensors, summed over its non-target indexes and broadcast
    over the target indexes it lacks.  Returns {coordinate: value} for the coordinates that receive
    a contribution; all other coordinates are 0 (``judge`` treats missing keys as 0).
    ``inputs[name] = (fmt, dims, indices, vals)``."""
    dense = {n: to_dense(*t) for n, t in inputs.items()}
    tix = assignment.target.indexes
    result: dict = {}
    for coef, ts in specmod.monomials(assignment.expression):
        if coef == 0:
            continue
        partial = [({}, coef)]
        for t in ts:
            nxt = []
            for bind, val in partial:
                for coord, v in dense[t.name].items():
                    if v == 0:
                        continue
                    b2 = dict(bind)
                    ok = True
                    for i, c in zip(t.indexes, coord):
                        if b2.setdefault(i, c) != c:
                            ok = False
                            break
                    if ok:
                        nxt.append((b2, val * v))
            partial = nxt
        for bind, val in partial:
            missing = [i for i in tix if i not in bind]
            for vs in itertools.product(*[range(index_dims[i]) for i in missing]):
                b = {**bind, **dict(zip(missing, vs))}
                c = tuple(b[i] for i in tix)
                result[c] = result.get(c, Fraction(0)) + val
    return result


def support_concrete(assignment, inputs: dict, index_dims: dict, partial: dict) -> bool:
    """Structural support under a partial target coordinate: some tuple of *stored* entries (one per
    tensor of a monomial) agrees on every shared index and with ``partial``."""
    stored = {n: [c for c, _ in raw_entries(*t)] for n, t in inputs.items()}
    for coef, ts in specmod.monomials(assignment.expression):
        if not ts:
            return True
        binds = [dict(partial)]
        for t in ts:
            nxt = []
            for b in binds:
                for coord in stored[t.name]:
                    b2 = dict(b)
                    if all(b2.setdefault(i, c) == c for i, c in zip(t.indexes, coord)):
                        nxt.append(b2)
            binds = nxt
            if not binds:
                break
        if binds:
            return True
    return False


# ------------------------------------------------------------------ (1) concrete IR machine


def parse_inputs(decoded: dict):
    out = {}
    for name, t in decoded["inputs"].items():
        fmt = parse_format(t["format"]).unwrap()
        out[name] = (fmt, list(t["dimensions"]), t["indices"], [Fraction(v) for v in t["vals"]])
    return out


def read_output(m: Machine, name: str):
    """Raw arrays of the output as a reader of the struct would see them (taco_indices logic)."""
    ts = m.tensors[name]
    dimb = m.heap[ts.dimensions.block]
    dims = [m.read_cell(dimb, d) for d in range(ts.order)]
    indices = []
    n_prev = 1
    notes = []
    for l, mode in enumerate(ts.modes):
        if mode == Mode.dense:
            indices.append([])
            n_prev *= dims[ts.ordering[l]]
            continue
        pp, cp = ts.levels[l]
        pb, cb = m.heap[pp.block], m.heap[cp.block]
        pos = [pb.cells.get(k) for k in range(n_prev + 1)]
        if any(x is None for x in pos):
            notes.append(f"level {l}: unreadable pos cells {pos}")
            return {"dimensions": dims, "indices": indices, "vals": [], "notes": notes,
                    "lengths": {}}
        crd = [cb.cells.get(q) for q in range(pos[-1])]
        indices.append([pos, crd])
        if pb.length != n_prev + 1:
            notes.append(f"level {l}: pos block length {pb.length}, expected {n_prev + 1}")
        if cb.length != pos[-1]:
            notes.append(f"level {l}: crd block length {cb.length}, expected {pos[-1]}")
        n_prev = pos[-1]
    vb = m.heap[ts.vals.block]
    vals = []
    for q in range(n_prev):
        v = vb.cells.get(q)
        vals.append(None if v is None else v.const_value())
    return {"dimensions": dims, "indices": indices, "vals": vals, "notes": notes,
            "vals_length": vb.length}


def concrete_ir_run(comp, fn_names, decoded: dict, max_loop_iter=100000, count=False):
    """Run kernels (list of kind names, in order, on one output struct) on concrete inputs."""
    from .explore import cap_sentinel

    m = Machine(concrete=True, max_loop_iter=max_loop_iter)
    inputs = parse_inputs(decoded)
    for name, fmt in comp.formats.items():
        if name == comp.target:
            tensors.make_output_struct(m, name, fmt, list(decoded["output_dimensions"]))
        else:
            f, dims, indices, vals = inputs[name]
            tensors.make_concrete_tensor(m, name, fmt, dims, indices, vals)
    cap = decoded.get("cap0")
    m.cap0 = cap if cap else None
    args = list(comp.formats.keys())
    result = {"violation": None, "returns": []}
    ex = IRExec(m, cap_sentinel() if cap else None)
    try:
        for k in fn_names:
            result["returns"].append(ex.run(comp.functions[k], args))
    except Violation as v:
        result["violation"] = {"kind": v.kind, "label": repr(v.label)}
    result["loop_iterations"] = ex.loop_iter_total
    result["statements"] = ex.stmt_count
    if result["violation"] is None:
        result["output"] = read_output(m, comp.target)
    return result


# ------------------------------------------------------------------ (2) the real kernel

_REAL_SCRIPT = r"""
import json, sys
from fractions import Fraction
spec = json.load(sys.stdin)
from tensora import Tensor, tensor_method, BackendCompiler
from tensora.compile import taco_structure_to_cffi
from tensora.format import parse_format
args = {}
for name, t in spec["inputs"].items():
    fmt = parse_format(t["format"]).unwrap()
    vals = [-0.0 if v == "-0.0" else float(Fraction(v)) for v in t["vals"]]
    cffi = taco_structure_to_cffi(t["indices"], vals, mode_types=tuple(m.c_int for m in fmt.modes),
                                  dimensions=tuple(t["dimensions"]), mode_ordering=fmt.ordering)
    args[name] = Tensor(cffi)
f = tensor_method(spec["assignment"], spec["formats"], BackendCompiler[spec["backend"]])
out = f(**args)
print("RESULT " + json.dumps({"dimensions": list(out.dimensions), "indices": out.taco_indices, "vals": out.taco_vals,
                  "format": out.format.deparse()}))
"""


def real_run(request, decoded: dict, backend="llvm", timeout=120):
    """The real compiled kernel through the public API, in a subprocess (it may crash)."""
    payload = {
        "assignment": request.assignment,
        "formats": dict(request.formats),
        "inputs": decoded["inputs"],
        "backend": backend,
    }
    env = dict(os.environ)
    env["PYTHONPATH"] = os.path.join(REPO, "src")
    if decoded.get("cap0"):
        env["TENSORA_VERIF_INITIAL_CAPACITY"] = str(decoded["cap0"])
    else:
        env.pop("TENSORA_VERIF_INITIAL_CAPACITY", None)
    try:
        p = subprocess.run([sys.executable, "-c", _REAL_SCRIPT], input=json.dumps(payload),
                           capture_output=True, text=True, timeout=timeout, env=env)
    except subprocess.TimeoutExpired:
        return {"status": "timeout"}
    if p.returncode != 0:
        return {"status": "crash" if p.returncode < 0 else "error", "returncode": p.returncode,
                "stderr": p.stderr[-2000:]}
    for line in p.stdout.splitlines():
        if line.startswith("RESULT "):
            return {"status": "ok", "output": json.loads(line[7:])}
    return {"status": "error", "returncode": 0, "stderr": p.stdout[-500:] + p.stderr[-1500:]}


# ------------------------------------------------------------------ (3) emitted C under sanitizers

_C_PRELUDE = """
#include <stdint.h>
#include <stdlib.h>
#include <stdio.h>
#include <string.h>
"""


def _c_array(ctype, name, values):
    if not values:
        return f"static {ctype} {name}[1];\n"
    return f"static {ctype} {name}[{len(values)}] = {{{', '.join(str(v) for v in values)}}};\n"


def c_driver(comp, fn_names, decoded, c_code: str):
    from tensora.compile._cffi_ownership import taco_type_header
    from tensora.compile._compile_cffi import taco_define_header

    src = [_C_PRELUDE, taco_define_header, taco_type_header.replace("void free(void *ptr);", ""), c_code, "\n"]
    inputs = decoded["inputs"]
    main = ["int main(void) {\n"]
    order_names = list(comp.formats.keys())
    for name in order_names:
        fmt = comp.formats[name]
        if name == comp.target:
            dims = decoded["output_dimensions"]
            t = None
        else:
            t = inputs[name]
            dims = t["dimensions"]
        src.append(_c_array("int32_t", f"{name}_dims", dims))
        src.append(_c_array("int32_t", f"{name}_ordering", list(fmt.ordering)))
        src.append(_c_array("taco_mode_t", f"{name}_modes",
                            ["taco_mode_dense" if m == Mode.dense else "taco_mode_sparse" for m in fmt.modes]))
        src.append(f"static int32_t** {name}_levels[{max(1, fmt.order)}];\n")
        for l, mode in enumerate(fmt.modes):
            if mode == Mode.compressed:
                src.append(f"static int32_t* {name}_level{l}[2];\n")
                main.append(f"  {name}_levels[{l}] = {name}_level{l};\n")
                if t is not None:
                    pos, crd = t["indices"][l]
                    # heap copies so that ASan sees exact bounds
                    main.append(f"  {{ int32_t tmp[] = {{{', '.join(map(str, pos))}}}; {name}_level{l}[0] = malloc(sizeof(tmp)); memcpy({name}_level{l}[0], tmp, sizeof(tmp)); }}\n")
                    if crd:
                        main.append(f"  {{ int32_t tmp[] = {{{', '.join(map(str, crd))}}}; {name}_level{l}[1] = malloc(sizeof(tmp)); memcpy({name}_level{l}[1], tmp, sizeof(tmp)); }}\n")
                    else:
                        main.append(f"  {name}_level{l}[1] = malloc(0);\n")
            else:
                main.append(f"  {name}_levels[{l}] = malloc(0);\n")
        src.append(f"static taco_tensor_t {name}_t;\n")
        main.append(f"  {name}_t.order = {fmt.order}; {name}_t.dimensions = {name}_dims; {name}_t.mode_ordering = {name}_ordering; {name}_t.mode_types = {name}_modes; {name}_t.indices = {name}_levels; {name}_t.vals = 0;\n")
        if t is not None:
            vals = [repr(float(Fraction(v))) for v in t["vals"]]
            if vals:
                main.append(f"  {{ double tmp[] = {{{', '.join(vals)}}}; {name}_t.vals = malloc(sizeof(tmp)); memcpy({name}_t.vals, tmp, sizeof(tmp)); }}\n")
            else:
                main.append(f"  {name}_t.vals = malloc(0);\n")
    call_args = ", ".join(f"&{n}_t" for n in order_names)
    for k in fn_names:
        main.append(f"  {{ int r = {k}({call_args}); printf(\"RET {k} %d\\n\", r); }}\n")
    # dump the output
    out = comp.target
    fmt = comp.formats[out]
    main.append("  long n_prev = 1;\n")
    for l, mode in enumerate(fmt.modes):
        d = fmt.ordering[l]
        if mode == Mode.dense:
            main.append(f"  n_prev *= {out}_dims[{d}];\n")
        else:
            main.append(f"  printf(\"POS {l}\"); for (long k = 0; k <= n_prev; k++) printf(\" %d\", {out}_t.indices[{l}][0][k]); printf(\"\\n\");\n")
            main.append(f"  n_prev = {out}_t.indices[{l}][0][n_prev];\n")
            main.append(f"  printf(\"CRD {l}\"); for (long k = 0; k < n_prev; k++) printf(\" %d\", {out}_t.indices[{l}][1][k]); printf(\"\\n\");\n")
    main.append(f"  printf(\"VALS\"); for (long k = 0; k < n_prev; k++) printf(\" %.17g\", {out}_t.vals[k]); printf(\"\\n\");\n")
    main.append("  return 0;\n}\n")
    return "".join(src) + "".join(main)


def asan_run(comp, fn_names, decoded, timeout=120, sanitize="address,undefined", cc="gcc"):
    """Compile the emitted C (all requested kernels) with sanitizers and run it on the inputs."""
    from tensora.codegen import ir_to_c

    cap = decoded.get("cap0")
    module = comp.module
    if cap:
        # regenerate with the hook so that the compiled kernel takes the same growth branches
        code = _generate_c_with_cap(comp, fn_names, cap)
    else:
        code = ir_to_c(module)
    src = c_driver(comp, fn_names, decoded, code)
    with tempfile.TemporaryDirectory(prefix="verif_asan_") as td:
        cfile = os.path.join(td, "k.c")
        exe = os.path.join(td, "k")
        with open(cfile, "w") as f:
            f.write(src)
        cp = subprocess.run([cc, "-std=gnu11", "-g", "-O1", f"-fsanitize={sanitize}",
                             "-fno-sanitize-recover=all", "-fno-omit-frame-pointer", "-w", cfile, "-o", exe],
                            capture_output=True, text=True)
        if cp.returncode != 0:
            return {"status": "compile-error", "stderr": cp.stderr[-3000:]}
        env = dict(os.environ)
        env["ASAN_OPTIONS"] = "detect_leaks=0:allocator_may_return_null=1"
        try:
            rp = subprocess.run([exe], capture_output=True, text=True, timeout=timeout, env=env)
        except subprocess.TimeoutExpired:
            return {"status": "timeout"}
        res = {"status": "ok" if rp.returncode == 0 else "sanitizer" if ("Sanitizer" in rp.stderr or "runtime error" in rp.stderr) else "crash",
               "returncode": rp.returncode, "stdout": rp.stdout[-4000:], "stderr": rp.stderr[-3000:]}
        if rp.returncode == 0:
            res["output"] = _parse_c_dump(rp.stdout, comp)
        return res


def _parse_c_dump(text, comp):
    fmt = comp.formats[comp.target]
    pos, crd, vals, rets = {}, {}, [], {}
    for line in text.splitlines():
        parts = line.split()
        if not parts:
            continue
        if parts[0] == "POS":
            pos[int(parts[1])] = [int(x) for x in parts[2:]]
        elif parts[0] == "CRD":
            crd[int(parts[1])] = [int(x) for x in parts[2:]]
        elif parts[0] == "VALS":
            vals = [float(x) for x in parts[1:]]
        elif parts[0] == "RET":
            rets[parts[1]] = int(parts[2])
    indices = [[] if m == Mode.dense else [pos.get(l, []), crd.get(l, [])] for l, m in enumerate(fmt.modes)]
    return {"indices": indices, "vals": vals, "returns": rets}


def _generate_c_with_cap(comp, fn_names, cap):
    script = r"""
import json, sys
from tensora.expression import parse_assignment
from tensora.format import parse_format
from tensora.problem import make_problem
from tensora.generate import generate_code, Language
from tensora.kernel_type import KernelType
spec = json.load(sys.stdin)
a = parse_assignment(spec["assignment"]).unwrap()
p = make_problem(a, {k: parse_format(v).unwrap() for k, v in spec["formats"].items()}).unwrap()
sys.stdout.write(generate_code(p, [KernelType[k] for k in spec["kinds"]], Language.c).unwrap())
"""
    env = dict(os.environ)
    env["PYTHONPATH"] = os.path.join(REPO, "src")
    env["TENSORA_VERIF_INITIAL_CAPACITY"] = str(cap)
    kinds = sorted(set(fn_names), key=["assemble", "compute", "evaluate"].index)
    p = subprocess.run([sys.executable, "-c", script],
                       input=json.dumps({"assignment": comp.request.assignment,
                                         "formats": dict(comp.request.formats), "kinds": kinds}),
                       capture_output=True, text=True, env=env, timeout=120)
    if p.returncode != 0:
        raise HarnessError("C generation with hook failed: " + p.stderr[-500:])
    return p.stdout


def _generate_llvm_with_cap(comp, fn_names, cap):
    script = r"""
import json, sys
from tensora.expression import parse_assignment
from tensora.format import parse_format
from tensora.problem import make_problem
from tensora.generate import generate_code, Language
from tensora.kernel_type import KernelType
spec = json.load(sys.stdin)
a = parse_assignment(spec["assignment"]).unwrap()
p = make_problem(a, {k: parse_format(v).unwrap() for k, v in spec["formats"].items()}).unwrap()
sys.stdout.write(generate_code(p, [KernelType[k] for k in spec["kinds"]], Language.llvm).unwrap())
"""
    env = dict(os.environ)
    env["PYTHONPATH"] = os.path.join(REPO, "src")
    if cap:
        env["TENSORA_VERIF_INITIAL_CAPACITY"] = str(cap)
    else:
        env.pop("TENSORA_VERIF_INITIAL_CAPACITY", None)
    kinds = sorted(set(fn_names), key=["assemble", "compute", "evaluate"].index)
    p = subprocess.run([sys.executable, "-c", script],
                       input=json.dumps({"assignment": comp.request.assignment,
                                         "formats": dict(comp.request.formats), "kinds": kinds}),
                       capture_output=True, text=True, env=env, timeout=120)
    if p.returncode != 0:
        raise HarnessError("LLVM generation failed: " + p.stderr[-500:])
    return p.stdout


def asan_run_llvm(comp, fn_names, decoded, timeout=120):
    """The emitted LLVM module compiled by clang with AddressSanitizer (functions get the
    sanitize_address attribute) and driven by the same C driver as the C replay."""
    import re as _re

    text = _generate_llvm_with_cap(comp, fn_names, decoded.get("cap0"))
    text = _re.sub(r'^(define [^\n]*\))\s*$', r'\1 sanitize_address', text, flags=_re.M)
    n = len(comp.formats)
    protos = "".join(f"int32_t {k}({', '.join(['taco_tensor_t*'] * n)});\n" for k in sorted(set(fn_names)))
    src = c_driver(comp, fn_names, decoded, protos)
    with tempfile.TemporaryDirectory(prefix="verif_asanll_") as td:
        ll = os.path.join(td, "k.ll")
        with open(ll, "w") as f:
            f.write(text)
        cfile = os.path.join(td, "d.c")
        with open(cfile, "w") as f:
            f.write(src)
        exe = os.path.join(td, "k")
        c1 = subprocess.run(["clang", "-c", "-x", "ir", ll, "-fsanitize=address", "-O0", "-Wno-override-module", "-o",
                             os.path.join(td, "k.o")], capture_output=True, text=True)
        if c1.returncode != 0:
            return {"status": "compile-error", "stderr": c1.stderr[-2000:]}
        c2 = subprocess.run(["clang", "-std=gnu11", "-g", "-fsanitize=address", "-w", cfile, os.path.join(td, "k.o"), "-o", exe],
                            capture_output=True, text=True)
        if c2.returncode != 0:
            return {"status": "compile-error", "stderr": c2.stderr[-2000:]}
        env = dict(os.environ)
        env["ASAN_OPTIONS"] = "detect_leaks=0:allocator_may_return_null=1"
        try:
            rp = subprocess.run([exe], capture_output=True, text=True, timeout=timeout, env=env)
        except subprocess.TimeoutExpired:
            return {"status": "timeout"}
        res = {"status": "ok" if rp.returncode == 0 else "sanitizer" if "Sanitizer" in rp.stderr else "crash",
               "returncode": rp.returncode, "stdout": rp.stdout[-4000:], "stderr": rp.stderr[-3000:]}
        if rp.returncode == 0:
            res["output"] = _parse_c_dump(rp.stdout, comp)
        return res
