"""Solver-based checking machinery for drhagen/tensora (see /verif/DESIGN.md)."""
