"""Multi-kernel programs on one machine: C05 (safety of evaluate, assemble, compute) and
C04 (assemble ; compute == evaluate, compute re-run with re-valued inputs)."""

from __future__ import annotations

import time
import traceback
from fractions import Fraction

import z3
from tensora.format import Mode

from . import explore, kassert, spec, sym, tensors
from .explore import Budget, Setup, cap_sentinel, index_classes, run_paths, unwind_bound
from .irexec import IRExec
from .kse import HarnessError, Machine, Ptr, Stats, TensorStruct, Violation
from .ksweep import _capture_witness, _jsonable, _walk_statements
from .request import Request, compile_request
from .sym import band, icmp, simp_bool, simp_int

KINDS3 = ("assemble", "compute", "evaluate")


def run_task(task: dict) -> dict:
    t0 = time.time()
    req = Request.make(task["assignment"], task["formats"])
    res = {"request": req.asdict(), "dimvec": task["dimvec"], "N": task["N"], "status": "ok",
           "stats": {}, "mode": task["mode"], "program": task.get("program"),
           "symbolic_classes": task.get("symbolic_classes")}
    try:
        comp = compile_request(req, kinds=KINDS3, optimise=True)
        if comp.refusal:
            res["status"] = "refused"
            res["refusal"] = comp.refusal
        else:
            if task["mode"] == "c07":
                from tensora.ir import peephole

                comp0 = compile_request(req, kinds=KINDS3, optimise=False)
                task = dict(task)
                task["_comp0"] = comp0
                again = peephole(comp0.module)
                if again != comp.module:
                    res["status"] = "violation"
                    res["violation"] = {"kind": "pipeline", "label": ["the module the pipeline returns is not peephole(unoptimised module)"],
                                        "detail": None}
                    res["wall_s"] = round(time.time() - t0, 3)
                    return res
                res["changed_by_peephole"] = comp0.module != comp.module
            res.update(_explore(comp, task))
    except HarnessError as e:
        res["status"] = "harness-error"
        res["error"] = str(e)
    except Exception as e:  # noqa: BLE001
        res["status"] = "harness-error"
        res["error"] = f"{type(e).__name__}: {e}\n{traceback.format_exc()[-1500:]}"
    res["wall_s"] = round(time.time() - t0, 3)
    return res


def second_output(m: Machine, comp, name2: str):
    ts = m.tensors[comp.target]
    fmt = comp.formats[comp.target]
    levels = [None if mode == Mode.dense else [Ptr(0, 0), Ptr(0, 0)] for mode in fmt.modes]
    m.tensors[name2] = TensorStruct(name2, ts.order, ts.dimensions, levels, Ptr(0, 0), True,
                                    ts.modes, ts.ordering)


def revalue_inputs(m: Machine, setup: Setup, tag: str):
    """Same structure, fresh values: every input gets a new vals block with fresh hot cells."""
    from .spec import occurrences

    occ = occurrences(setup.comp.assignment)
    new_infos = {}
    for name, info in setup.infos.items():
        ts = m.tensors[name]
        old = m.heap[ts.vals.block]
        vb = m.heap.new(f"{name}_vals{tag}", "float", old.length, init_all=True, owner="input")
        hot = []
        k = occ.get(name, 1)
        for r in range(k):
            e = z3.Int(f"{name}_hot{r}{tag}")
            m.assume(e >= -1)
            m.assume(e < sym.zi(old.length))
            if k == 1:
                weights = [(True, Fraction(1))]
            else:
                w = z3.Int(f"{name}_w{r}{tag}")
                m.assume(w >= 1)
                m.assume(w <= k)
                weights = [(w == v, Fraction(v)) for v in range(1, k + 1)]
            hot.append((e, weights))
        vb.hot = hot
        m.tensors[name] = TensorStruct(ts.name, ts.order, ts.dimensions, ts.levels, Ptr(vb.bid, 0),
                                       False, ts.modes, ts.ordering)
        new_infos[name] = hot
    return new_infos


def eligible_classes(comp) -> list[str]:
    """Index classes meeting C16's hypothesis: every operand and the output store the index only in
    compressed levels (or lack it) and every additive term mentions it."""
    from .explore import tensor_index_lists

    cls = index_classes(comp.assignment)
    lists = tensor_index_lists(comp.assignment)
    out = []
    for c in sorted(set(cls.values())):
        members = {i for i, k in cls.items() if k == c}
        ok = True
        used = False
        for name, fmt in comp.formats.items():
            idxs = lists[name]
            for l, mode in enumerate(fmt.modes):
                if idxs[fmt.ordering[l]] in members:
                    used = True
                    if mode != Mode.compressed:
                        ok = False
        # a tensor used with several index lists: check every occurrence
        for name, occs in comp.assignment.expression.variables().items():
            fmt = comp.formats[name]
            for occ in occs:
                for l, mode in enumerate(fmt.modes):
                    if occ.indexes[fmt.ordering[l]] in members and mode != Mode.compressed:
                        ok = False
        if not ok or not used:
            continue
        for coef, ts in spec.monomials(comp.assignment.expression):
            if not any(i in members for t in ts for i in t.indexes):
                ok = False
        if ok:
            out.append(c)
    return out


def _map_blocks(log0, log1):
    """k-th allocation of the optimised run corresponds to the k-th of the original."""
    if [k for k, _, _ in log0] != [k for k, _, _ in log1]:
        return None
    mp = {}
    for (k0, n0, o0), (k1, n1, o1) in zip(log0, log1):
        mp[n1] = n0
    return mp


def _access_containment(m, trace0, trace1, mp):
    """Every access of the optimised program was also performed by the original."""
    by = {}
    for kind, b, off in trace0:
        by.setdefault((kind, b), []).append(off)
    todo = []
    for kind, b, off in trace1:
        b0 = mp.get(b, b)
        cands = by.get((kind, b0))
        if not cands:
            raise Violation("extra-access", ("optimised program accesses a block the original did not", kind,
                                             m.heap[b].name), kassert._model(m))
        hit = False
        for c in cands:
            if isinstance(off, int) and isinstance(c, int):
                if off == c:
                    hit = True
                    break
            elif not isinstance(off, int) and not isinstance(c, int) and off.eq(c):
                hit = True
                break
        if not hit:
            todo.append((sym.bor(*[icmp("==", off, c) for c in cands]),
                         ("optimised program performs an access the original did not", kind, m.heap[b].name)))
    return kassert.discharge(m, todo, "extra-access")


def _explore(comp, task):
    mode = task["mode"]
    cls = index_classes(comp.assignment)
    dv = dict(task["dimvec"])
    sym_dims = {}
    if mode == "c16":
        for c in task["symbolic_classes"]:
            sym_dims[c] = z3.Int(f"dim_{c}")
            dv[c] = sym_dims[c]
    use_uf = mode == "c06" and task.get("falg", "uf") == "uf"
    setup = Setup(comp, dv, task["N"], uf_vals=use_uf)
    fns = comp.functions
    names = list(comp.formats.keys())
    out1 = comp.target
    out2 = comp.target + "#2"
    args1 = names
    args2 = [out2 if n == out1 else n for n in names]
    sent = cap_sentinel()
    idims = {i: dv[cls[i]] for i in cls}
    stats = Stats()
    covered = set()
    flags = {"grew": False, "nonempty": False, "compared_cells": 0, "revalued_checks": 0,
             "handback": 0}
    bound = unwind_bound(setup)
    stmts = []
    for k in KINDS3:
        _walk_statements(fns[k].body, stmts)
    deadline = time.process_time() + task.get("time_budget", 600)
    solver = setup.shared_solver(task.get("solver_timeout_ms", 60000))
    out = {}

    backends = None
    if mode == "c06":
        from tensora.codegen import ir_to_c, ir_to_llvm

        from . import cfront, llfront

        ctext = ir_to_c(comp.module)
        backends = {"c": cfront.parse_functions(ctext), "llvm": llfront.parse_module(str(ir_to_llvm(comp.module)))}
        cap_lit = _cap_literal(sent)

    def mk(prefix):
        m = Machine(prefix, max_loop_iter=bound, solver=solver, falg=sym.UFAlgebra() if use_uf else None)
        m.shared_solver = True
        return m

    def run_kernel(m, ex, kind, args):
        ret = ex.run(fns[kind], args)
        m.flush_obligations()
        if ret != 0:
            raise Violation("return", ("kernel returned non-zero", kind, ret), kassert._model(m))

    def body(m):
        setup.apply(m)
        ex = IRExec(m, sent)
        try:
            if mode == "c03a":
                # the separately generated assemble kernel must not store phantom coordinates either
                run_kernel(m, ex, "assemble", args1)
                counts = kassert.output_shape(m, out1, False, [])
                eo = kassert.input_entries(m, setup.infos, setup.cache.setdefault("entries", {}))
                flags["support_checks"] = flags.get("support_checks", 0) + (kassert.check_support(m, out1, comp.assignment, counts, eo) or 0)
                if counts and counts[-1] > 0:
                    flags["nonempty"] = True
            elif mode == "c06":
                from . import cfront, llfront

                kinds = ["evaluate"] if task.get("program") == "evaluate" else ["assemble", "compute"]
                outs = {"ir": out1, "c": out1 + "#c", "llvm": out1 + "#llvm"}
                for tag in ("c", "llvm"):
                    second_output(m, comp, outs[tag])
                for kind in kinds:
                    run_kernel(m, ex, kind, args1)
                    for tag in ("c", "llvm"):
                        argsb = [outs[tag] if n == out1 else n for n in names]
                        if tag == "c":
                            r = cfront.CExec(m, cap_lit).run(backends["c"][kind], argsb)
                        else:
                            r = llfront.LLExec(m, cap_lit).run(backends["llvm"][kind], argsb)
                        m.flush_obligations()
                        if not (isinstance(r, int) and r == 0):
                            raise Violation("mismatch", ("return value differs", tag, kind), kassert._model(m))
                    counts = kassert.output_shape(m, out1, False, [])
                    for tag in ("c", "llvm"):
                        cb = kassert.output_shape(m, outs[tag], False, [])
                        if cb != counts:
                            raise Violation("mismatch", ("level sizes differ", tag, kind, counts, cb), kassert._model(m))
                        try:
                            flags["compared_cells"] += _compare_outputs(m, out1, outs[tag], counts,
                                                                        with_vals=(kind != "assemble"), lengths=True)
                        except Violation as v:
                            v.label = (tag, kind) + tuple(v.label)
                            v.detail = {"backend": tag, "kind": kind}
                            raise
                if counts and counts[-1] > 0:
                    flags["nonempty"] = True
            elif mode == "c07":
                comp0 = task["_comp0"]
                ex0 = IRExec(m, sent)
                second_output(m, comp, out2)
                programs = [["evaluate"]] if task.get("program") == "evaluate" else [["assemble"], ["compute"]]
                mp_total = {}
                for (kind,) in programs:
                    n_alloc = len(m.alloc_log)
                    m.trace_accesses = []
                    try:
                        ret0 = ex0.run(comp0.functions[kind], args1)
                        m.flush_obligations()
                    except Violation:
                        # the original does not run safely on this path: outside the claim (C05 reports it)
                        flags["original_unsafe_paths"] = flags.get("original_unsafe_paths", 0) + 1
                        m.trace_accesses = None
                        return
                    trace0 = m.trace_accesses
                    log0 = m.alloc_log[n_alloc:]
                    n_alloc = len(m.alloc_log)
                    m.trace_accesses = []
                    ret1 = ex.run(fns[kind], args2)
                    m.flush_obligations()
                    trace1 = m.trace_accesses
                    m.trace_accesses = None
                    log1 = m.alloc_log[n_alloc:]
                    if not (isinstance(ret0, int) and isinstance(ret1, int) and ret0 == ret1):
                        if simp_bool(icmp("==", ret0, ret1)) is not True:
                            raise Violation("mismatch", ("return values differ", kind), kassert._model(m))
                    mp = _map_blocks(log0, log1)
                    if mp is None:
                        raise Violation("mismatch", ("allocation sequences differ", kind), kassert._model(m))
                    mp_total.update(mp)
                    flags["access_checks"] = flags.get("access_checks", 0) + _access_containment(m, trace0, trace1, mp_total) + len(trace1)
                    counts1 = kassert.output_shape(m, out1, False, [])
                    counts2 = kassert.output_shape(m, out2, False, [])
                    if counts1 != counts2:
                        raise Violation("mismatch", ("level sizes differ after optimisation", kind, counts1, counts2),
                                        kassert._model(m))
                    if kind != "assemble":
                        flags["compared_cells"] += _compare_outputs(m, out1, out2, counts1)
                    else:
                        flags["compared_cells"] += _compare_outputs(m, out1, out2, counts1, with_vals=False)
                    if counts1 and counts1[-1] > 0:
                        flags["nonempty"] = True
            elif mode == "c16":
                run_kernel(m, ex, "evaluate", args1)
                for c, D in sym_dims.items():
                    D2 = z3.Int(f"dim2_{c}")
                    pc2 = [z3.substitute(x, (D, D2)) for x in m.pc]
                    r = m.check(D2 > D, D2 <= sym.INT_MAX, z3.Not(z3.And(*pc2)))
                    flags["monotone_checks"] = flags.get("monotone_checks", 0) + 1
                    if r != z3.unsat:
                        model = m.solver.model()
                        raise Violation("work-depends-on-dimension",
                                        ("path taken depends on the size of a sparse-only dimension", c),
                                        model, detail={"class": c, "D": explore.mval(model, D),
                                                       "D2": explore.mval(model, D2)})
                flags["nonempty"] = True
            elif mode == "c05":
                which = task.get("program", "evaluate")
                if which == "evaluate":
                    run_kernel(m, ex, "evaluate", args1)
                    conds = []
                    counts = kassert.output_shape(m, out1, False, conds)
                    flags["handback"] += kassert.discharge(m, conds, "handback")
                else:
                    run_kernel(m, ex, "assemble", args1)
                    conds = []
                    counts = kassert.output_shape(m, out1, False, [])
                    # after assemble: structure arrays handed back; vals allocated (contents not yet)
                    _vals_allocated(m, out1, counts, conds)
                    flags["handback"] += kassert.discharge(m, conds, "handback")
                    run_kernel(m, ex, "compute", args1)
                    conds = []
                    counts = kassert.output_shape(m, out1, False, conds)
                    flags["handback"] += kassert.discharge(m, conds, "handback")
                if counts and counts[-1] > 0:
                    flags["nonempty"] = True
            else:  # c04
                run_kernel(m, ex, "evaluate", args1)
                conds = []
                counts1 = kassert.output_shape(m, out1, True, conds)
                kassert.discharge(m, conds, "structure")
                second_output(m, comp, out2)
                run_kernel(m, ex, "assemble", args2)
                ts2 = m.tensors[out2]
                snapshot = {"vals": ts2.vals.block,
                            "levels": [None if lv is None else (lv[0].block, lv[1].block) for lv in ts2.levels],
                            "nblocks": len(m.heap.blocks)}
                index_cells = _index_snapshot(m, out2)
                m.frozen_alloc = True
                m.store_whitelist = {ts2.vals.block}
                run_kernel(m, ex, "compute", args2)
                _same_structure(m, out2, snapshot, index_cells)
                conds = []
                counts2 = kassert.output_shape(m, out2, True, conds)
                kassert.discharge(m, conds, "structure")
                if counts1 != counts2:
                    raise Violation("mismatch", ("evaluate and assemble disagree on level sizes", counts1, counts2),
                                    kassert._model(m))
                flags["compared_cells"] += _compare_outputs(m, out1, out2, counts1)
                if counts1 and counts1[-1] > 0:
                    flags["nonempty"] = True
                # history: compute again with re-valued inputs of the same structure
                revalue_inputs(m, setup, "_r")
                run_kernel(m, ex, "compute", args2)
                _same_structure(m, out2, snapshot, index_cells)
                rc = setup.cache.setdefault("revalued", {})
                eo = kassert.input_entries(m, setup.infos, rc.setdefault("entries", {}))
                kassert.check_value(m, out2, comp.assignment, counts2, eo, idims, rc)
                flags["revalued_checks"] += 1
                m.frozen_alloc = False
                m.store_whitelist = None
        finally:
            covered.update(ex.covered)
        if not flags["grew"]:
            from .ksweep import _grew

            for k, n, o in m.alloc_log:
                if k == "realloc" and o != 0 and _grew(m, n, o):
                    flags["grew"] = True
                    break
        if "witness" not in out:
            _capture_witness(m, setup, out, None)

    try:
        run_paths(mk, body, max_paths=task.get("max_paths"), deadline=deadline, stats=stats)
    except Violation as v:
        out["status"] = "violation"
        out["violation"] = {"kind": v.kind, "label": _jsonable(v.label), "detail": _jsonable(v.detail)}
        if v.model is not None:
            out["violation"]["decoded"] = _jsonable(explore.decode_inputs(v.model, setup))
    except Budget as b:
        out["status"] = "budget"
        out["error"] = str(b)
    out["stats"] = stats.asdict()
    ids = {id(s) for s in stmts}
    out["coverage"] = {"statements": len(ids), "reached": len(ids & covered)}
    out["flags"] = flags
    return out


def _vals_allocated(m, out, counts, conds):
    ts = m.tensors[out]
    if ts.vals.block == 0:
        raise Violation("handback", ("assemble left vals NULL", out), kassert._model(m))
    vb = m.heap[ts.vals.block]
    need = counts[-1] if counts else 1
    conds.append((icmp(">=", vb.length, need), ("assemble sized vals smaller than the stored positions", out)))


def _index_snapshot(m, out):
    ts = m.tensors[out]
    snap = []
    for lv in ts.levels:
        if lv is None:
            snap.append(None)
            continue
        pb, cb = m.heap[lv[0].block], m.heap[lv[1].block]
        snap.append((dict(pb.cells), pb.base, dict(cb.cells), cb.base))
    return snap


def _same_structure(m, out, snapshot, index_cells):
    ts = m.tensors[out]
    if ts.vals.block != snapshot["vals"]:
        raise Violation("structure-changed", ("compute replaced the vals array", out), kassert._model(m))
    for l, lv in enumerate(ts.levels):
        if lv is None:
            continue
        if (lv[0].block, lv[1].block) != snapshot["levels"][l]:
            raise Violation("structure-changed", ("compute replaced an index array", out, l), kassert._model(m))
        pb, cb = m.heap[lv[0].block], m.heap[lv[1].block]
        pc, pbase, cc, cbase = index_cells[l]
        same = (pb.base is pbase and cb.base is cbase and pb.cells.keys() == pc.keys()
                and cb.cells.keys() == cc.keys()
                and all(pb.cells[k] is pc[k] for k in pc) and all(cb.cells[k] is cc[k] for k in cc))
        if not same:
            raise Violation("structure-changed", ("compute wrote into an index array", out, l), kassert._model(m))
    if len(m.heap.blocks) != snapshot["nblocks"]:
        # revalue_inputs adds input blocks deliberately; kernel allocations are caught by frozen_alloc
        pass


def _cap_literal(sent):
    """The default capacity as a pair of integer literals (a * b), if it has that shape."""
    from tensora.ir import ast as ir

    if isinstance(sent, ir.Multiply) and isinstance(sent.left, ir.IntegerLiteral) and isinstance(sent.right, ir.IntegerLiteral):
        return (sent.left.value, sent.right.value)
    return None


def _compare_outputs(m, a, b, counts, with_vals=True, lengths=False):
    """Raw pos/crd/vals of two outputs equal cell by cell (for all inputs of this path)."""
    ta, tb = m.tensors[a], m.tensors[b]
    conds = []
    n_prev = 1
    for l, mode in enumerate(ta.modes):
        if mode == Mode.dense:
            n_prev = counts[l]
            continue
        pa, ca = m.heap[ta.levels[l][0].block], m.heap[ta.levels[l][1].block]
        pb, cb = m.heap[tb.levels[l][0].block], m.heap[tb.levels[l][1].block]
        for k in range(n_prev + 1):
            conds.append((icmp("==", m.read_cell(pa, k), m.read_cell(pb, k)), ("pos differs", l, k)))
        for q in range(counts[l]):
            conds.append((icmp("==", m.read_cell(ca, q), m.read_cell(cb, q)), ("crd differs", l, q)))
        if lengths:
            conds.append((icmp("==", pa.length, pb.length), ("pos block length differs", l)))
            conds.append((icmp("==", ca.length, cb.length), ("crd block length differs", l)))
        n_prev = counts[l]
    if with_vals:
        va, vb = m.heap[ta.vals.block], m.heap[tb.vals.block]
        for q in range(n_prev):
            conds.append((m.falg.eq(m.read_cell(va, q), m.read_cell(vb, q)), ("vals differ", q)))
    return kassert.discharge(m, conds, "mismatch")
