#!/usr/bin/env python3
"""Regenerates MANIFEST.json from the table below (single source of truth for the interface)."""
import json, os

HERE = os.path.dirname(os.path.abspath(__file__))
BASELINE_OFF = ("cd /repo && env -u TENSORA_VERIF_INITIAL_CAPACITY /venv/bin/python -m pytest -ra -q -p no:cacheprovider "
                "--timeout=900 --continue-on-collection-errors --junitxml=/tmp/tensora_baseline_off.junit.xml")

TRUST = ("Trusted: z3 (unknown/timeout => exit 2, never success); my semantics of the 30 IR node types; the grid lemma "
         "(float values as solver-placed indicator cells, exact rationals); malloc/realloc never fail. The request axis "
         "(assignment x formats) is enumerated, the input axis (structures, values, capacities) is symbolic within the "
         "stated bounds (dense extents <= D, <= N stored entries per compressed level, loop unwinding derived from them "
         "and asserted).")

CHECKS = {
    "C01": dict(
        level="model_checking", engine="E1-KSE",
        technique="symbolic execution of the generated IR kernel (z3, path-based) vs. a tensor-algebra oracle; bounded",
        text=("For every enumerated request the evaluate kernel emitted by the real generator is executed symbolically on "
              "arbitrary well-formed inputs (symbolic pos/crd/vals, symbolic initial capacity); z3 decides per path that the "
              "stored result equals the assignment's mathematical meaning at every target coordinate. Counterexamples are "
              "replayed on a concrete IR machine and on the real LLVM-JIT kernel before being reported. Bounded model checking "
              "fits because the input space per kernel is huge but kernels are small loop programs."),
        design="DESIGN.md §4 C01"),
    "C02": dict(
        level="model_checking", engine="E1-KSE",
        technique="symbolic execution of the generated IR kernel; final heap must satisfy the representation invariant; bounded",
        text=("On every path of every enumerated evaluate kernel the final output heap is checked by z3 against the very "
              "representation invariant assumed of inputs: exact pos/crd block lengths, initialised cells, pos[0]=0, monotone pos, "
              "coordinates in range and strictly increasing per segment, vals covering every stored position."),
        design="DESIGN.md §4 C02"),
    "C03": dict(
        level="model_checking", engine="E1-KSE",
        technique="symbolic execution of the generated IR kernel; stored coordinates vs. structural-support oracle; bounded",
        text=("For every stored position of every compressed output level, z3 decides that the structural support of the "
              "expression (stored sets, products=intersection, sums=union, summation=projection, literals everywhere) is non-empty "
              "under that coordinate, for all input sparsity patterns within the bounds. The separately generated assemble kernel of the "
              "core corpus is checked the same way (it decides the stored structure on its own)."),
        design="DESIGN.md §4 C03"),
    "C04": dict(
        level="model_checking", engine="E1-KSE",
        technique="symbolic execution of evaluate, assemble and compute IR kernels on one symbolic heap; cell-by-cell equality decided by z3; bounded",
        text=("One path runs evaluate(out1), assemble(out2), compute(out2) and compute(out2) again with re-valued inputs of the same "
              "structure, all three kernels taken from a single generate_module_tensora call. z3 decides that pos/crd/vals of out1 and "
              "out2 are equal cell by cell for every input of the path, that compute allocates nothing, stores only into the vals array "
              "assemble sized and leaves every index array and struct pointer untouched, and that the re-run equals the specification "
              "of the new values."),
        design="DESIGN.md §4 C04"),
    "C05": dict(
        level="model_checking", engine="E1-KSE",
        technique="symbolic execution of all three IR kernel kinds with per-access safety obligations (bounds, initialisation, ownership, int32 range, unwinding) discharged by z3; bounded",
        text=("Every load/store/realloc of every enumerated kernel (evaluate; assemble followed by compute) carries obligations - in "
              "bounds of a live block, cell initialised, block owned by the kernel for writes, no store into an input tensor, int32 "
              "range of each integer operation, non-negative allocation sizes - discharged by z3 for all well-formed inputs and all "
              "initial capacities >= 1 (symbolic), plus return value 0, loop unwinding assertion and the hand-back clauses (arrays "
              "live and at least as long as the structure they describe, stored cells initialised). In addition an inductive append "
              "step: the growth fragments the real write_crd_assembly / write_pos_allocation emit for all 34 layer shapes of order <= 3 "
              "are executed once from an arbitrary valid state (cursor, capacity and dense extents anywhere in int32) and must keep "
              "the array long enough for the next writes without overflow - this reaches sizes no bounded kernel run can (it is what "
              "reports known finding F6). Witnesses of verified paths are validated against gcc- and clang-ASan builds of the emitted C "
              "and LLVM."),
        design="DESIGN.md §4 C05"),
    "C07": dict(
        level="translation_validation", engine="E1-KSE + E3-trees",
        technique="solver-checked equivalence of each program with its peephole-optimised form: (a) generated kernels on one symbolic heap, (b) all typed expression trees to depth 2 (+depth-3 spines) and statement trees via z3; bounded",
        text=("(a) For every enumerated request and kernel kind the unoptimised module (pipeline with peephole stubbed) and "
              "tensora.ir.peephole of it run on the same symbolic inputs; z3 decides per path equal return value, equal pos/crd/vals, no "
              "obligation violated by the optimised program and every access of the optimised program also performed by the original; the "
              "module the real pipeline returns must be exactly peephole(unoptimised). (b) Every well-typed expression tree over the "
              "property's literal set and typed variables (exhaustive depth 1, depth 2 exhaustive in thorough / every 25th in quick, "
              "depth-3 spines sampled) and statement trees (depth <=2 exhaustive, depth 3 sampled) is compared with its optimised form "
              "for all environments in which the original is safe; counterexamples are replayed through the real LLVM JIT. The 76 "
              "depth-1 float trees the peephole changes are additionally checked bit-precisely in Float64 (fp.eq, finite inputs)."),
        design="DESIGN.md §4 C07",
        note=TRUST + " Doubles are compared over the rationals. Known finding F11 (float-literal identity rules narrow double arithmetic to int32) is listed in known_findings.json."),
    "C16": dict(
        level="model_checking", engine="E1-KSE",
        technique="symbolic execution with the sparse-only dimension as a free integer up to 2^31-1; monotonicity of every path condition in that dimension decided by z3; bounded in stored entries",
        text=("For every enumerated request with an index meeting the hypothesis (computed independently from the assignment and formats) "
              "that dimension is a free symbol in [0, 2^31-1]. z3 decides for every path that its path condition stays true when the "
              "dimension is enlarged with the stored entries unchanged - so the same loop iterations and statements are executed - and a "
              "loop bounded by the dimension cannot complete a path (unwinding violation). Witnesses are replayed on the concrete IR "
              "machine with its loop/statement counters at D and at a larger D."),
        design="DESIGN.md §4 C16"),
    "C10": dict(
        level="model_checking", engine="E4-PyProxy",
        technique="symbolic execution of the real TensorMethod.__call__ on z3-backed proxy tensors (symbolic order, modes, ordering, every dimension size up to 2^31-1); consistency at kernel entry decided by z3",
        text=("The real TensorMethod objects are constructed for the enumerated assignments, their kernel pointer replaced by a spy and "
              "allocate_taco_structure by a recorder; __call__ runs on proxy tensors whose order (0..4), per-level mode, per-level "
              "ordering entry and every dimension size (0..2^31-1, never concretised) are symbolic. For every path that reaches the "
              "spy z3 decides that all arguments have the generated order/modes/ordering, that all participants of every index have "
              "equal size and that the recorded output dimensions are the target indexes' sizes; every other path must end in "
              "TypeError/ValueError. Missing/extra/non-Tensor arguments are finite concrete cases run through the public wrappers."),
        design="DESIGN.md §4 C10",
        note="Trusted: z3; the proxy layer (SymInt/SymBool/SymEnum) and the three stubs listed in the evidence. Assignment axis enumerated."),
    "C11": dict(
        level="model_checking", engine="E4-PyProxy -> E1-KSE",
        technique="stage 1: symbolic execution of the real operator dispatch on proxy tensors with symbolic dimensions; stage 2: symbolic execution of the kernel compiled for the recorded request against a specification derived from the operator; bounded",
        text=("Stage 1 runs evaluate_binary_operator / evaluate_matrix_multiplication_operator on proxy tensors (enumerated formats, "
              "symbolic dimension sizes): z3 decides that ValueError is raised iff the shapes are incompatible, operands are bound "
              "left->left/right->right and natural-order operands get the documented output format. Stage 2 compiles every recorded "
              "request with the real compiler and checks the kernel symbolically (as C01/C02) against the operator's own meaning "
              "(element-wise / scalar broadcast / vector-matrix products), not against the recorded string."),
        design="DESIGN.md §4 C11"),
    "C06": dict(
        level="translation_validation", engine="E2-backends + E3-trees + E5-regex",
        technique="z3-checked agreement of three meanings of the same program: the IR, the C text (parsed by pycparser after gcc -E with the real headers) and the emitted LLVM function (parsed instruction by instruction) - on all small typed expression trees, statement programs and on generated kernels with symbolic inputs; bounded",
        text=("(1) For every well-typed expression tree (exhaustive depth 1, depth 2 every 20th in quick / all in thorough, special "
              "precedence/short-circuit/mixed-type shapes) the real printers are run and z3 compares the IR meaning with the meaning of the C "
              "text and of the LLVM function for all environments in which the IR is safe: value, safety and set of accesses; doubles are compared "
              "over the rationals and, for bit-identity, structurally (uninterpreted fadd/fmul; x - y = x + (-y), -1 * y = -y, 1 * y = y normalised, "
              "which is bit-exact in IEEE 754); LLVM functions must be well formed (phi entries = predecessors; every tree module goes "
              "through the real LLVM verifier) and emitted C may only declare int32_t/double/bool/tensor types. Statement programs (assignment sugar, "
              "else-if chains, loops, block scope vs hoisting, allocation sizes with n up to 2^31-1) run on the path-based machine through IR, "
              "C and LLVM front ends. (2) Generated kernels (evaluate; assemble+compute): IR, lifted C and parsed LLVM on the same symbolic "
              "inputs, raw pos/crd/vals, block lengths and return values compared per path; every structural value difference is re-decided "
              "with exact rational values (a real difference cannot hide among rounding-only candidates). (3) gcc -fsyntax-only with the published header and "
              "llvmlite verify for every generated request. (4) Identifier obligations as regular-language queries on the live name regex. "
              "Every reported difference is first reproduced on the real gcc-compiled C and the LLVM JIT."),
        design="DESIGN.md §4 C06",
        note=TRUST + " Trusted additionally: gcc -E, pycparser, llvmlite's verifier, my semantics of the C and LLVM subsets. Known findings F4, F5, F7, F10 are listed in known_findings.json."),
    "C12": dict(
        level="other", engine="E5-regex + E3-trees",
        technique="z3 sequence-theory inclusion queries on the parser's live regexes; z3 comparison of parse-tree meaning with Python's own reading of every sentence up to 4 operands and of deparse for every tree up to depth 2; concrete side checks for the rejection rules",
        text=("Literal and format-integer spellings: language inclusion L(str(float) | str(int)) within L(parser literal regexes) decided by "
              "z3; meaning of the tree the real parser builds for every sentence with <= 4 operands compared by z3 (symbolic leaf values) with "
              "Python's ast.parse reading of the same text; meaning and round trip of deparse for every tree of depth <= 2 over 5 leaves and "
              "sampled depth-3 spines. 'Parsing never raises on any string' is outside the claim (stated in the evidence); the three rejection "
              "rules and the format round trip for orders <= 4 are finite concrete cases."),
        design="DESIGN.md §4 C12",
        note="Trusted: z3 (sequence theory and NRA on degree <= 4 polynomials, with a grid-lemma fallback), CPython's float repr and ast.parse. Known finding F9 (1e999) is listed in known_findings.json."),
    "C09": dict(
        level="model_checking", engine="E4-PyProxy",
        technique="symbolic execution of the real Tensor reader (items/taco_indices/pickle) on arbitrary well-formed stored structures over a pure-Python FFI stand-in, z3 deciding read-back equality; writer entry points with solver-enumerated coordinates and symbolic values; bounded",
        text=("Reader half: for every format of order <= 3 an arbitrary well-formed stored structure (<= 2 entries per compressed level, dense "
              "extents 0..2, crd values, vals and compressed-only dimension sizes symbolic) is given to the real Tensor code over a FakeFFI; "
              "items(), taco_indices/taco_vals and a __getstate__/__setstate__ round trip (which runs the real structure validator) must "
              "return exactly the stored entries in dimension order - decided by z3 per path (pos entries and dense extents are value-forked "
              "where range() needs them). Writer half: from_aos/from_dok/from_soa with <= 2 entries whose coordinates range over [-1, dim] "
              "(value-forked, duplicates included) and symbolic values; the tensor read back must hold the summed entries, the given "
              "order/dimensions/format, a sorted duplicate-free structure, and out-of-range coordinates must be rejected. The writer half is "
              "bounded-exhaustive over coordinates by solver enumeration (the real code hashes coordinates), symbolic only in values."),
        design="DESIGN.md §0 (C09) and §4 C09",
        note="Trusted: z3, the proxy layer (SymInt/SymBool/SymVal) and the FakeFFI (Python lists with the int32 range check cffi performs). from_numpy/from_scipy_sparse/from_lol are outside. Known finding F3b (dense levels drop out-of-range coordinates) is listed in known_findings.json."),
}

NOT_APPLICABLE = {
    "C08": "quantifier is the finite request/configuration space and the failure is a Python exception inside the compiler; executing the whole Python compiler on a symbolic format is out of reach of CrossHair (realises at enum/tuple/dict use); what remains is enumeration, a different technique (DESIGN.md §5)",
    "C13": "histories of CPython refcounting/gc/cffi ffi.gc/libc free: the code that matters is C behind the FFI; nothing installed executes it symbolically (DESIGN.md §5)",
    "C14": "thread interleavings of CPython, LLVM MCJIT and the cffi build lock: no engine here explores Python thread schedules symbolically (DESIGN.md §5)",
    "C15": "hash seeds, process boundaries and request histories are not inputs of a function a solver can quantify over; the cache-key clause ranges over a small finite set where a symbolic check degenerates to enumeration (DESIGN.md §5)",
}
PENDING = {}


def main():
    checks = []
    for pid, c in CHECKS.items():
        checks.append({
            "property_id": pid,
            "quick_cmd": f"./vt check {pid} --tier quick",
            "thorough_cmd": f"./vt check {pid} --tier thorough",
            "evidence_file": f"evidence/{pid}.json",
            "replay_cmd_template": f"./vt replay {pid} {{path}}",
            "engine": c["engine"],
            "level_claimed": {"category": c["level"], "text": c["text"], "design_ref": c["design"]},
            "level_note": c.get("note", TRUST),
            "technique": c["technique"],
        })
    na = [{"property_id": k, "reason": v} for k, v in {**NOT_APPLICABLE, **PENDING}.items() if k not in CHECKS]
    na.sort(key=lambda e: e["property_id"])
    doc = {
        "version": 1,
        "setup_cmd": "./vt setup",
        "hooks": {
            "guard": "TENSORA_VERIF_INITIAL_CAPACITY",
            "enable": "environment variable TENSORA_VERIF_INITIAL_CAPACITY=<n> at import of tensora (set by replays only; symbolic runs recognise the generator's default_array_size object instead)",
            "baseline_off_cmd": BASELINE_OFF,
            "source_commits": ["273966f"],
            "add_only": True,
        },
        "engines": [
            {"name": "E1-KSE", "path": "vlib/kse.py, vlib/irexec.py, vlib/tensors.py, vlib/kassert.py, vlib/spec.py",
             "serves_properties": ["C01", "C02", "C03", "C04", "C05", "C07", "C16"],
             "kind_free_text": "path-based symbolic executor for tensora IR on z3 (replay forking, hybrid concrete/symbolic heap)"},
            {"name": "E4-PyProxy", "path": "vlib/pyproxy.py, vlib/checks/c10.py, vlib/checks/c11.py",
             "serves_properties": ["C10", "C11"],
             "kind_free_text": "real Python glue executed on z3-backed proxy values with the replay-forking engine (deterministic value forks)"},
            {"name": "E2-backends", "path": "vlib/cfront.py, vlib/llfront.py, vlib/backmean.py, vlib/checks/c06.py",
             "serves_properties": ["C06"],
             "kind_free_text": "C text (pycparser) and LLVM text front ends on the E1 machine, plus pure symbolic meanings of printed expressions"},
            {"name": "E5-regex", "path": "vlib/rex.py", "serves_properties": ["C12", "C06"],
             "kind_free_text": "Python re -> z3 regular expressions; inclusion/intersection queries"},
            {"name": "E3-trees", "path": "vlib/trees.py, vlib/stmts.py, vlib/checks/c07.py",
             "serves_properties": ["C07", "C06", "C12"],
             "kind_free_text": "typed IR expression/statement tree enumeration with symbolic variables; meanings compared by z3"},
        ],
        "checks": checks,
        "not_applicable": na,
        "notes": "See DESIGN.md. Exit codes: 0 held, 1 VIOLATION (replayed), 2 harness error / inconclusive.",
    }
    with open(os.path.join(HERE, "MANIFEST.json"), "w") as f:
        json.dump(doc, f, indent=1)
    print("MANIFEST.json written:", [c["property_id"] for c in checks], "n/a:", [e["property_id"] for e in na])


if __name__ == "__main__":
    main()
